//! C04 — "settings change only when signed by the specific authority recorded on-chain for that setting".
//! Anchor-dispatched *settings / admin* instructions: one harness per accounts struct on the Anchor-generated
//! `try_accounts` (all authority checks of these instructions live in account constraints; the handlers only
//! write the new value).  Accounts are built with `AccountInfo::new`; account keys, signer / writable flags,
//! lamports, the owner of the signer / unchecked accounts and the account bodies (or, for the 653-byte Whirlpool,
//! every field the constraints read) are symbolic.  Owner = program id (resp. a token program) and the Anchor
//! discriminator of the *typed* accounts are fixed to the values every account created by the program has
//! (validity predicate of the account type, not part of this property).
//!
//! Not run through `try_accounts` (listed in the report): `InitializeReward` (8 accounts, token-account `init`: does not finish
//! in 900 s) and `InitializePoolWithAdaptiveFee` (16 accounts, two `init` PDAs); for the latter only the predicate of its
//! `initialize_pool_authority` constraint is decided (`c04_initialize_pool_authority_rule`).
use crate::common::*;
use anchor_lang::prelude::*;
use anchor_lang::Discriminator;
use std::collections::BTreeSet;
use ::whirlpool::instructions::*;
use ::whirlpool::state::{
    AdaptiveFeeTier, FeeTier, Oracle, TokenBadge, Whirlpool, WhirlpoolsConfig, WhirlpoolsConfigExtension,
};

const PID: Pubkey = ::whirlpool::ID;

// ---- byte offsets (8-byte discriminator included), from /repo/programs/whirlpool/src/state/*.rs ----
const CFG_FEE_AUTH: usize = 8;
const CFG_CPF_AUTH: usize = 40;
const CFG_SUPER_AUTH: usize = 72;
const WP_CONFIG: usize = 8;
const WP_TICK_SPACING: usize = 41;
const WP_FEE_TIER_INDEX: usize = 43;
const WP_REWARD0_VAULT: usize = 301;
const WP_REWARD_AUTH: usize = 333; // reward_infos[0].extension
const WP_REWARD_STRIDE: usize = 128;
const FT_CONFIG: usize = 8;
const AFT_CONFIG: usize = 8;
const AFT_INDEX: usize = 40;
const AFT_INIT_POOL_AUTH: usize = 44;
const AFT_DELEGATED_AUTH: usize = 76;
const EXT_CONFIG: usize = 8;
const EXT_CE_AUTH: usize = 40;
const EXT_TB_AUTH: usize = 72;
const TB_CONFIG: usize = 8;
const TB_MINT: usize = 40;
const ORA_WHIRLPOOL: usize = 8;

fn any_key() -> Pubkey {
    Pubkey::new_from_array(kani::any())
}
fn k32(d: &[u8], off: usize) -> [u8; 32] {
    let mut o = [0u8; 32];
    o.copy_from_slice(&d[off..off + 32]);
    o
}

/// typed account data of length `N`: discriminator, then `S` symbolic bytes, the remaining (reserved, never
/// deserialized) bytes zero
fn typed_data<const N: usize, const S: usize>(disc: &[u8]) -> [u8; N] {
    let mut d = [0u8; N];
    let body: [u8; S] = kani::any();
    d[..8].copy_from_slice(disc);
    d[8..8 + S].copy_from_slice(&body);
    d
}
/// `WhirlpoolsConfig`: fully symbolic body
fn config_data() -> [u8; WhirlpoolsConfig::LEN] {
    typed_data::<{ WhirlpoolsConfig::LEN }, { WhirlpoolsConfig::LEN - 8 }>(WhirlpoolsConfig::DISCRIMINATOR)
}
/// `FeeTier`: fully symbolic body
fn fee_tier_data() -> [u8; FeeTier::LEN] {
    typed_data::<{ FeeTier::LEN }, { FeeTier::LEN - 8 }>(FeeTier::DISCRIMINATOR)
}
/// `AdaptiveFeeTier`: all declared fields symbolic (120 bytes), 128 reserved bytes zero
fn aft_data() -> [u8; AdaptiveFeeTier::LEN] {
    typed_data::<{ AdaptiveFeeTier::LEN }, 120>(AdaptiveFeeTier::DISCRIMINATOR)
}
/// `WhirlpoolsConfigExtension`: the three keys symbolic, 512 reserved bytes zero
fn ext_data() -> [u8; WhirlpoolsConfigExtension::LEN] {
    typed_data::<{ WhirlpoolsConfigExtension::LEN }, 96>(WhirlpoolsConfigExtension::DISCRIMINATOR)
}
/// `TokenBadge`: config, mint, attribute byte symbolic, 127 reserved bytes zero
fn token_badge_data() -> [u8; TokenBadge::LEN] {
    typed_data::<{ TokenBadge::LEN }, 65>(TokenBadge::DISCRIMINATOR)
}
/// `Oracle` (zero-copy): whirlpool key, timestamp, constants, variables symbolic; 128 reserved bytes zero
fn oracle_data() -> [u8; Oracle::LEN] {
    typed_data::<{ Oracle::LEN }, { Oracle::LEN - 8 - 128 }>(Oracle::DISCRIMINATOR)
}

/// `Whirlpool` account data: discriminator, symbolic config back-reference, tick spacing / fee-tier index, fee rates,
/// reward authority (reward_infos[0].extension), extension segments of reward 1 and 2, the three reward
/// mints / vaults; all other (numeric) fields zero.
fn whirlpool_data() -> [u8; Whirlpool::LEN] {
    let mut d = [0u8; Whirlpool::LEN];
    d[..8].copy_from_slice(Whirlpool::DISCRIMINATOR);
    let cfg: [u8; 32] = kani::any();
    d[WP_CONFIG..WP_CONFIG + 32].copy_from_slice(&cfg);
    let ts: [u8; 8] = kani::any(); // tick_spacing, fee_tier_index_seed, fee_rate, protocol_fee_rate
    d[WP_TICK_SPACING..WP_TICK_SPACING + 8].copy_from_slice(&ts);
    let mut i = 0;
    while i < 3 {
        let v: [u8; 96] = kani::any(); // mint, vault, extension
        let o = WP_REWARD0_VAULT - 32 + i * WP_REWARD_STRIDE;
        d[o..o + 96].copy_from_slice(&v);
        i += 1;
    }
    d
}

/// declare a symbolic account: key, signer flag, writable flag, lamports symbolic; data and owner given
macro_rules! acct {
    ($ai:ident, $key:ident, $signer:ident, $data:expr, $owner:expr) => {
        let $key = any_key();
        let $signer: bool = kani::any();
        let writable: bool = kani::any();
        let mut lamports: u64 = kani::any();
        let owner: Pubkey = $owner;
        let $ai = AccountInfo::new(&$key, $signer, writable, &mut lamports, $data, &owner, false, 0);
    };
}

macro_rules! try_accounts {
    ($t:ty, $accounts:expr, $ix:expr) => {{
        let mut slice: &[AccountInfo] = &$accounts;
        let mut bumps = <$t as anchor_lang::Bumps>::Bumps::default();
        let mut reallocs = BTreeSet::new();
        <$t as anchor_lang::Accounts<'_, _>>::try_accounts(&PID, &mut slice, $ix, &mut bumps, &mut reallocs)
    }};
}

/// set_fee_rate: SetFeeRate::try_accounts Ok => fee_authority signed, its key == config.fee_authority, whirlpool.whirlpools_config == config key
// @verif prop=C04,C15 tier=quick timeout=300
#[kani::proof]
#[kani::unwind(40)]
#[kani::stub(alloc::fmt::format, stub_format)]
#[kani::stub(<anchor_lang::error::Error as core::convert::From<anchor_lang::error::ErrorCode>>::from, stub_err_from_anchor_code)]
#[kani::stub(<anchor_lang::error::Error as core::convert::From<::whirlpool::errors::ErrorCode>>::from, stub_err_from_code)]
#[kani::stub(<anchor_lang::prelude::Pubkey as core::fmt::Display>::fmt, stub_pubkey_display)]
#[kani::stub(anchor_lang::error::Error::with_account_name, stub_with_account_name)]
fn c04_set_fee_rate() {
    let mut cfg_d = config_data();
    let stored = k32(&cfg_d, CFG_FEE_AUTH);
    let mut wp_d = whirlpool_data();
    let wp_cfg = k32(&wp_d, WP_CONFIG);
    let mut no_d = [0u8; 0];
    acct!(cfg_ai, cfg_key, cfg_s, &mut cfg_d, PID);
    acct!(wp_ai, wp_key, wp_s, &mut wp_d, PID);
    acct!(auth_ai, auth_key, auth_s, &mut no_d, any_key());
    let accounts = [cfg_ai, wp_ai, auth_ai];
    let r = try_accounts!(SetFeeRate, accounts, &[]);
    kani::cover!(r.is_ok(), "ok reachable");
    kani::cover!(r.is_err(), "err reachable");
    if r.is_ok() {
        assert!(auth_s, "authority signed");
        assert!(auth_key.to_bytes() == stored, "authority is config.fee_authority");
        assert!(wp_cfg == cfg_key.to_bytes(), "whirlpool belongs to config");
    }
    core::mem::forget(r);
}

/// set_protocol_fee_rate: SetProtocolFeeRate::try_accounts Ok => fee_authority signed, its key == config.fee_authority, whirlpool.whirlpools_config == config key
// @verif prop=C04,C15 tier=quick timeout=300
#[kani::proof]
#[kani::unwind(40)]
#[kani::stub(alloc::fmt::format, stub_format)]
#[kani::stub(<anchor_lang::error::Error as core::convert::From<anchor_lang::error::ErrorCode>>::from, stub_err_from_anchor_code)]
#[kani::stub(<anchor_lang::error::Error as core::convert::From<::whirlpool::errors::ErrorCode>>::from, stub_err_from_code)]
#[kani::stub(<anchor_lang::prelude::Pubkey as core::fmt::Display>::fmt, stub_pubkey_display)]
#[kani::stub(anchor_lang::error::Error::with_account_name, stub_with_account_name)]
fn c04_set_protocol_fee_rate() {
    let mut cfg_d = config_data();
    let stored = k32(&cfg_d, CFG_FEE_AUTH);
    let mut wp_d = whirlpool_data();
    let wp_cfg = k32(&wp_d, WP_CONFIG);
    let mut no_d = [0u8; 0];
    acct!(cfg_ai, cfg_key, cfg_s, &mut cfg_d, PID);
    acct!(wp_ai, wp_key, wp_s, &mut wp_d, PID);
    acct!(auth_ai, auth_key, auth_s, &mut no_d, any_key());
    let accounts = [cfg_ai, wp_ai, auth_ai];
    let r = try_accounts!(SetProtocolFeeRate, accounts, &[]);
    kani::cover!(r.is_ok(), "ok reachable");
    kani::cover!(r.is_err(), "err reachable");
    if r.is_ok() {
        assert!(auth_s, "authority signed");
        assert!(auth_key.to_bytes() == stored, "authority is config.fee_authority");
        assert!(wp_cfg == cfg_key.to_bytes(), "whirlpool belongs to config");
    }
    core::mem::forget(r);
}

/// set_default_fee_rate: Ok => fee_authority signed, key == config.fee_authority, fee_tier.whirlpools_config == config key
// @verif prop=C04,C15 tier=quick timeout=300
#[kani::proof]
#[kani::unwind(40)]
#[kani::stub(alloc::fmt::format, stub_format)]
#[kani::stub(<anchor_lang::error::Error as core::convert::From<anchor_lang::error::ErrorCode>>::from, stub_err_from_anchor_code)]
#[kani::stub(<anchor_lang::error::Error as core::convert::From<::whirlpool::errors::ErrorCode>>::from, stub_err_from_code)]
#[kani::stub(<anchor_lang::prelude::Pubkey as core::fmt::Display>::fmt, stub_pubkey_display)]
#[kani::stub(anchor_lang::error::Error::with_account_name, stub_with_account_name)]
fn c04_set_default_fee_rate() {
    let mut cfg_d = config_data();
    let stored = k32(&cfg_d, CFG_FEE_AUTH);
    let mut ft_d = fee_tier_data();
    let ft_cfg = k32(&ft_d, FT_CONFIG);
    let mut no_d = [0u8; 0];
    acct!(cfg_ai, cfg_key, cfg_s, &mut cfg_d, PID);
    acct!(ft_ai, ft_key, ft_s, &mut ft_d, PID);
    acct!(auth_ai, auth_key, auth_s, &mut no_d, any_key());
    let accounts = [cfg_ai, ft_ai, auth_ai];
    let r = try_accounts!(SetDefaultFeeRate, accounts, &[]);
    kani::cover!(r.is_ok(), "ok reachable");
    kani::cover!(r.is_err(), "err reachable");
    if r.is_ok() {
        assert!(auth_s, "authority signed");
        assert!(auth_key.to_bytes() == stored, "authority is config.fee_authority");
        assert!(ft_cfg == cfg_key.to_bytes(), "fee tier belongs to config");
    }
    core::mem::forget(r);
}

/// set_default_protocol_fee_rate: Ok => fee_authority signed and key == config.fee_authority
// @verif prop=C04 tier=quick timeout=300
#[kani::proof]
#[kani::unwind(40)]
#[kani::stub(alloc::fmt::format, stub_format)]
#[kani::stub(<anchor_lang::error::Error as core::convert::From<anchor_lang::error::ErrorCode>>::from, stub_err_from_anchor_code)]
#[kani::stub(<anchor_lang::error::Error as core::convert::From<::whirlpool::errors::ErrorCode>>::from, stub_err_from_code)]
#[kani::stub(<anchor_lang::prelude::Pubkey as core::fmt::Display>::fmt, stub_pubkey_display)]
#[kani::stub(anchor_lang::error::Error::with_account_name, stub_with_account_name)]
fn c04_set_default_protocol_fee_rate() {
    let mut cfg_d = config_data();
    let stored = k32(&cfg_d, CFG_FEE_AUTH);
    let mut no_d = [0u8; 0];
    acct!(cfg_ai, cfg_key, cfg_s, &mut cfg_d, PID);
    acct!(auth_ai, auth_key, auth_s, &mut no_d, any_key());
    let accounts = [cfg_ai, auth_ai];
    let r = try_accounts!(SetDefaultProtocolFeeRate, accounts, &[]);
    kani::cover!(r.is_ok(), "ok reachable");
    kani::cover!(r.is_err(), "err reachable");
    if r.is_ok() {
        assert!(auth_s, "authority signed");
        assert!(auth_key.to_bytes() == stored, "authority is config.fee_authority");
    }
    core::mem::forget(r);
}

/// set_fee_authority: Ok => current authority signed and its key == config.fee_authority (new authority account arbitrary)
// @verif prop=C04 tier=quick timeout=300
#[kani::proof]
#[kani::unwind(40)]
#[kani::stub(alloc::fmt::format, stub_format)]
#[kani::stub(<anchor_lang::error::Error as core::convert::From<anchor_lang::error::ErrorCode>>::from, stub_err_from_anchor_code)]
#[kani::stub(<anchor_lang::error::Error as core::convert::From<::whirlpool::errors::ErrorCode>>::from, stub_err_from_code)]
#[kani::stub(<anchor_lang::prelude::Pubkey as core::fmt::Display>::fmt, stub_pubkey_display)]
#[kani::stub(anchor_lang::error::Error::with_account_name, stub_with_account_name)]
fn c04_set_fee_authority() {
    let mut cfg_d = config_data();
    let stored = k32(&cfg_d, CFG_FEE_AUTH);
    let mut no_d = [0u8; 0];
    let mut no_d2 = [0u8; 0];
    acct!(cfg_ai, cfg_key, cfg_s, &mut cfg_d, PID);
    acct!(auth_ai, auth_key, auth_s, &mut no_d, any_key());
    acct!(new_ai, new_key, new_s, &mut no_d2, any_key());
    let accounts = [cfg_ai, auth_ai, new_ai];
    let r = try_accounts!(SetFeeAuthority, accounts, &[]);
    kani::cover!(r.is_ok(), "ok reachable");
    kani::cover!(r.is_err(), "err reachable");
    if r.is_ok() {
        assert!(auth_s, "authority signed");
        assert!(auth_key.to_bytes() == stored, "authority is config.fee_authority");
    }
    core::mem::forget(r);
}

/// set_collect_protocol_fees_authority: Ok => current authority signed and its key == config.collect_protocol_fees_authority (new authority account arbitrary)
// @verif prop=C04 tier=quick timeout=300
#[kani::proof]
#[kani::unwind(40)]
#[kani::stub(alloc::fmt::format, stub_format)]
#[kani::stub(<anchor_lang::error::Error as core::convert::From<anchor_lang::error::ErrorCode>>::from, stub_err_from_anchor_code)]
#[kani::stub(<anchor_lang::error::Error as core::convert::From<::whirlpool::errors::ErrorCode>>::from, stub_err_from_code)]
#[kani::stub(<anchor_lang::prelude::Pubkey as core::fmt::Display>::fmt, stub_pubkey_display)]
#[kani::stub(anchor_lang::error::Error::with_account_name, stub_with_account_name)]
fn c04_set_collect_protocol_fees_authority() {
    let mut cfg_d = config_data();
    let stored = k32(&cfg_d, CFG_CPF_AUTH);
    let mut no_d = [0u8; 0];
    let mut no_d2 = [0u8; 0];
    acct!(cfg_ai, cfg_key, cfg_s, &mut cfg_d, PID);
    acct!(auth_ai, auth_key, auth_s, &mut no_d, any_key());
    acct!(new_ai, new_key, new_s, &mut no_d2, any_key());
    let accounts = [cfg_ai, auth_ai, new_ai];
    let r = try_accounts!(SetCollectProtocolFeesAuthority, accounts, &[]);
    kani::cover!(r.is_ok(), "ok reachable");
    kani::cover!(r.is_err(), "err reachable");
    if r.is_ok() {
        assert!(auth_s, "authority signed");
        assert!(auth_key.to_bytes() == stored, "authority is config.collect_protocol_fees_authority");
    }
    core::mem::forget(r);
}

/// set_reward_emissions_super_authority: Ok => current authority signed and its key == config.reward_emissions_super_authority (new authority account arbitrary)
// @verif prop=C04 tier=quick timeout=300
#[kani::proof]
#[kani::unwind(40)]
#[kani::stub(alloc::fmt::format, stub_format)]
#[kani::stub(<anchor_lang::error::Error as core::convert::From<anchor_lang::error::ErrorCode>>::from, stub_err_from_anchor_code)]
#[kani::stub(<anchor_lang::error::Error as core::convert::From<::whirlpool::errors::ErrorCode>>::from, stub_err_from_code)]
#[kani::stub(<anchor_lang::prelude::Pubkey as core::fmt::Display>::fmt, stub_pubkey_display)]
#[kani::stub(anchor_lang::error::Error::with_account_name, stub_with_account_name)]
fn c04_set_reward_emissions_super_authority() {
    let mut cfg_d = config_data();
    let stored = k32(&cfg_d, CFG_SUPER_AUTH);
    let mut no_d = [0u8; 0];
    let mut no_d2 = [0u8; 0];
    acct!(cfg_ai, cfg_key, cfg_s, &mut cfg_d, PID);
    acct!(auth_ai, auth_key, auth_s, &mut no_d, any_key());
    acct!(new_ai, new_key, new_s, &mut no_d2, any_key());
    let accounts = [cfg_ai, auth_ai, new_ai];
    let r = try_accounts!(SetRewardEmissionsSuperAuthority, accounts, &[]);
    kani::cover!(r.is_ok(), "ok reachable");
    kani::cover!(r.is_err(), "err reachable");
    if r.is_ok() {
        assert!(auth_s, "authority signed");
        assert!(auth_key.to_bytes() == stored, "authority is config.reward_emissions_super_authority");
    }
    core::mem::forget(r);
}

/// set_reward_authority: Ok => reward_authority signed and key == whirlpool.reward_authority() (reward_infos[0].extension)
// @verif prop=C04 tier=quick timeout=300
#[kani::proof]
#[kani::unwind(40)]
#[kani::stub(alloc::fmt::format, stub_format)]
#[kani::stub(<anchor_lang::error::Error as core::convert::From<anchor_lang::error::ErrorCode>>::from, stub_err_from_anchor_code)]
#[kani::stub(<anchor_lang::error::Error as core::convert::From<::whirlpool::errors::ErrorCode>>::from, stub_err_from_code)]
#[kani::stub(<anchor_lang::prelude::Pubkey as core::fmt::Display>::fmt, stub_pubkey_display)]
#[kani::stub(anchor_lang::error::Error::with_account_name, stub_with_account_name)]
fn c04_set_reward_authority() {
    let mut wp_d = whirlpool_data();
    let stored = k32(&wp_d, WP_REWARD_AUTH);
    let mut no_d = [0u8; 0];
    let mut no_d2 = [0u8; 0];
    acct!(wp_ai, wp_key, wp_s, &mut wp_d, PID);
    acct!(auth_ai, auth_key, auth_s, &mut no_d, any_key());
    acct!(new_ai, new_key, new_s, &mut no_d2, any_key());
    let accounts = [wp_ai, auth_ai, new_ai];
    let r = try_accounts!(SetRewardAuthority, accounts, &[]);
    kani::cover!(r.is_ok(), "ok reachable");
    kani::cover!(r.is_err(), "err reachable");
    if r.is_ok() {
        assert!(auth_s, "authority signed");
        assert!(auth_key.to_bytes() == stored, "authority is the whirlpool reward authority");
    }
    core::mem::forget(r);
}

/// set_reward_authority_by_super_authority: Ok => super authority signed, key == config.reward_emissions_super_authority, whirlpool.whirlpools_config == config key (reward_index byte symbolic)
// @verif prop=C04,C15 tier=quick timeout=300
#[kani::proof]
#[kani::unwind(40)]
#[kani::stub(alloc::fmt::format, stub_format)]
#[kani::stub(<anchor_lang::error::Error as core::convert::From<anchor_lang::error::ErrorCode>>::from, stub_err_from_anchor_code)]
#[kani::stub(<anchor_lang::error::Error as core::convert::From<::whirlpool::errors::ErrorCode>>::from, stub_err_from_code)]
#[kani::stub(<anchor_lang::prelude::Pubkey as core::fmt::Display>::fmt, stub_pubkey_display)]
#[kani::stub(anchor_lang::error::Error::with_account_name, stub_with_account_name)]
fn c04_set_reward_authority_by_super_authority() {
    let mut cfg_d = config_data();
    let stored = k32(&cfg_d, CFG_SUPER_AUTH);
    let mut wp_d = whirlpool_data();
    let wp_cfg = k32(&wp_d, WP_CONFIG);
    let ix: [u8; 1] = kani::any();
    let mut no_d = [0u8; 0];
    let mut no_d2 = [0u8; 0];
    acct!(cfg_ai, cfg_key, cfg_s, &mut cfg_d, PID);
    acct!(wp_ai, wp_key, wp_s, &mut wp_d, PID);
    acct!(auth_ai, auth_key, auth_s, &mut no_d, any_key());
    acct!(new_ai, new_key, new_s, &mut no_d2, any_key());
    let accounts = [cfg_ai, wp_ai, auth_ai, new_ai];
    let r = try_accounts!(SetRewardAuthorityBySuperAuthority, accounts, &ix);
    kani::cover!(r.is_ok(), "ok reachable");
    kani::cover!(r.is_err(), "err reachable");
    if r.is_ok() {
        assert!(auth_s, "authority signed");
        assert!(auth_key.to_bytes() == stored, "authority is config.reward_emissions_super_authority");
        assert!(wp_cfg == cfg_key.to_bytes(), "whirlpool belongs to config");
    }
    core::mem::forget(r);
}

/// set_reward_emissions: Ok => reward_authority signed, key == whirlpool.reward_authority(), vault key == whirlpool.reward_infos[reward_index].vault. vault owned by the Token program, all 165 bytes symbolic. reward_index >= 3 is excluded: the constraint indexes a [_; 3] and panics (= the transaction aborts), which Kani would report as a failure
// @verif prop=C04,C15 tier=thorough timeout=900
#[kani::proof]
#[kani::unwind(40)]
#[kani::stub(alloc::fmt::format, stub_format)]
#[kani::stub(<anchor_lang::error::Error as core::convert::From<anchor_lang::error::ErrorCode>>::from, stub_err_from_anchor_code)]
#[kani::stub(<anchor_lang::error::Error as core::convert::From<::whirlpool::errors::ErrorCode>>::from, stub_err_from_code)]
#[kani::stub(<anchor_lang::prelude::Pubkey as core::fmt::Display>::fmt, stub_pubkey_display)]
#[kani::stub(anchor_lang::error::Error::with_account_name, stub_with_account_name)]
fn c04_set_reward_emissions() {
    let mut wp_d = whirlpool_data();
    let stored = k32(&wp_d, WP_REWARD_AUTH);
    let ix: [u8; 1] = kani::any();
    kani::assume(ix[0] < 3);
    let vault = k32(&wp_d, WP_REWARD0_VAULT + ix[0] as usize * WP_REWARD_STRIDE);
    let mut va_d: [u8; 165] = kani::any();
    let mut no_d = [0u8; 0];
    acct!(wp_ai, wp_key, wp_s, &mut wp_d, PID);
    acct!(auth_ai, auth_key, auth_s, &mut no_d, any_key());
    acct!(va_ai, va_key, va_s, &mut va_d, anchor_spl::token::ID);
    let accounts = [wp_ai, auth_ai, va_ai];
    let r = try_accounts!(SetRewardEmissions, accounts, &ix);
    kani::cover!(r.is_ok(), "ok reachable");
    kani::cover!(r.is_err(), "err reachable");
    if r.is_ok() {
        assert!(auth_s, "authority signed");
        assert!(auth_key.to_bytes() == stored, "authority is the whirlpool reward authority");
        assert!(va_key.to_bytes() == vault, "vault is the pool's vault of that reward");
    }
    core::mem::forget(r);
}

/// set_reward_emissions_v2: Ok => reward_authority signed, key == whirlpool.reward_authority(), vault key == whirlpool.reward_infos[reward_index].vault. vault owned by Token or Token-2022, 165 bytes (no account extensions), all 165 bytes symbolic. reward_index >= 3 is excluded: the constraint indexes a [_; 3] and panics (= the transaction aborts), which Kani would report as a failure
// @verif prop=C04,C15 tier=thorough timeout=900
#[kani::proof]
#[kani::unwind(40)]
#[kani::stub(alloc::fmt::format, stub_format)]
#[kani::stub(<anchor_lang::error::Error as core::convert::From<anchor_lang::error::ErrorCode>>::from, stub_err_from_anchor_code)]
#[kani::stub(<anchor_lang::error::Error as core::convert::From<::whirlpool::errors::ErrorCode>>::from, stub_err_from_code)]
#[kani::stub(<anchor_lang::prelude::Pubkey as core::fmt::Display>::fmt, stub_pubkey_display)]
#[kani::stub(anchor_lang::error::Error::with_account_name, stub_with_account_name)]
fn c04_set_reward_emissions_v2() {
    let mut wp_d = whirlpool_data();
    let stored = k32(&wp_d, WP_REWARD_AUTH);
    let ix: [u8; 1] = kani::any();
    kani::assume(ix[0] < 3);
    let vault = k32(&wp_d, WP_REWARD0_VAULT + ix[0] as usize * WP_REWARD_STRIDE);
    let mut va_d: [u8; 165] = kani::any();
    let mut no_d = [0u8; 0];
    acct!(wp_ai, wp_key, wp_s, &mut wp_d, PID);
    acct!(auth_ai, auth_key, auth_s, &mut no_d, any_key());
    acct!(va_ai, va_key, va_s, &mut va_d, if kani::any() { anchor_spl::token::ID } else { anchor_spl::token_2022::ID });
    let accounts = [wp_ai, auth_ai, va_ai];
    let r = try_accounts!(SetRewardEmissionsV2, accounts, &ix);
    kani::cover!(r.is_ok(), "ok reachable");
    kani::cover!(r.is_err(), "err reachable");
    if r.is_ok() {
        assert!(auth_s, "authority signed");
        assert!(auth_key.to_bytes() == stored, "authority is the whirlpool reward authority");
        assert!(va_key.to_bytes() == vault, "vault is the pool's vault of that reward");
    }
    core::mem::forget(r);
}

/// set_default_base_fee_rate: Ok => fee_authority signed, key == config.fee_authority, adaptive_fee_tier.whirlpools_config == config key
// @verif prop=C04,C15 tier=quick timeout=300
#[kani::proof]
#[kani::unwind(40)]
#[kani::stub(alloc::fmt::format, stub_format)]
#[kani::stub(<anchor_lang::error::Error as core::convert::From<anchor_lang::error::ErrorCode>>::from, stub_err_from_anchor_code)]
#[kani::stub(<anchor_lang::error::Error as core::convert::From<::whirlpool::errors::ErrorCode>>::from, stub_err_from_code)]
#[kani::stub(<anchor_lang::prelude::Pubkey as core::fmt::Display>::fmt, stub_pubkey_display)]
#[kani::stub(anchor_lang::error::Error::with_account_name, stub_with_account_name)]
fn c04_set_default_base_fee_rate() {
    let mut cfg_d = config_data();
    let stored = k32(&cfg_d, CFG_FEE_AUTH);
    let mut aft_d = aft_data();
    let aft_cfg = k32(&aft_d, AFT_CONFIG);
    let mut no_d = [0u8; 0];
    acct!(cfg_ai, cfg_key, cfg_s, &mut cfg_d, PID);
    acct!(aft_ai, aft_key, aft_s, &mut aft_d, PID);
    acct!(auth_ai, auth_key, auth_s, &mut no_d, any_key());
    let accounts = [cfg_ai, aft_ai, auth_ai];
    let r = try_accounts!(SetDefaultBaseFeeRate, accounts, &[]);
    kani::cover!(r.is_ok(), "ok reachable");
    kani::cover!(r.is_err(), "err reachable");
    if r.is_ok() {
        assert!(auth_s, "authority signed");
        assert!(auth_key.to_bytes() == stored, "authority is config.fee_authority");
        assert!(aft_cfg == cfg_key.to_bytes(), "adaptive fee tier belongs to config");
    }
    core::mem::forget(r);
}

/// set_preset_adaptive_fee_constants: Ok => fee_authority signed, key == config.fee_authority, adaptive_fee_tier.whirlpools_config == config key
// @verif prop=C04,C15 tier=quick timeout=300
#[kani::proof]
#[kani::unwind(40)]
#[kani::stub(alloc::fmt::format, stub_format)]
#[kani::stub(<anchor_lang::error::Error as core::convert::From<anchor_lang::error::ErrorCode>>::from, stub_err_from_anchor_code)]
#[kani::stub(<anchor_lang::error::Error as core::convert::From<::whirlpool::errors::ErrorCode>>::from, stub_err_from_code)]
#[kani::stub(<anchor_lang::prelude::Pubkey as core::fmt::Display>::fmt, stub_pubkey_display)]
#[kani::stub(anchor_lang::error::Error::with_account_name, stub_with_account_name)]
fn c04_set_preset_adaptive_fee_constants() {
    let mut cfg_d = config_data();
    let stored = k32(&cfg_d, CFG_FEE_AUTH);
    let mut aft_d = aft_data();
    let aft_cfg = k32(&aft_d, AFT_CONFIG);
    let mut no_d = [0u8; 0];
    acct!(cfg_ai, cfg_key, cfg_s, &mut cfg_d, PID);
    acct!(aft_ai, aft_key, aft_s, &mut aft_d, PID);
    acct!(auth_ai, auth_key, auth_s, &mut no_d, any_key());
    let accounts = [cfg_ai, aft_ai, auth_ai];
    let r = try_accounts!(SetPresetAdaptiveFeeConstants, accounts, &[]);
    kani::cover!(r.is_ok(), "ok reachable");
    kani::cover!(r.is_err(), "err reachable");
    if r.is_ok() {
        assert!(auth_s, "authority signed");
        assert!(auth_key.to_bytes() == stored, "authority is config.fee_authority");
        assert!(aft_cfg == cfg_key.to_bytes(), "adaptive fee tier belongs to config");
    }
    core::mem::forget(r);
}

/// set_delegated_fee_authority: Ok => fee_authority signed, key == config.fee_authority, adaptive_fee_tier.whirlpools_config == config key (new authority account arbitrary)
// @verif prop=C04,C15 tier=quick timeout=300
#[kani::proof]
#[kani::unwind(40)]
#[kani::stub(alloc::fmt::format, stub_format)]
#[kani::stub(<anchor_lang::error::Error as core::convert::From<anchor_lang::error::ErrorCode>>::from, stub_err_from_anchor_code)]
#[kani::stub(<anchor_lang::error::Error as core::convert::From<::whirlpool::errors::ErrorCode>>::from, stub_err_from_code)]
#[kani::stub(<anchor_lang::prelude::Pubkey as core::fmt::Display>::fmt, stub_pubkey_display)]
#[kani::stub(anchor_lang::error::Error::with_account_name, stub_with_account_name)]
fn c04_set_delegated_fee_authority() {
    let mut cfg_d = config_data();
    let stored = k32(&cfg_d, CFG_FEE_AUTH);
    let mut aft_d = aft_data();
    let aft_cfg = k32(&aft_d, AFT_CONFIG);
    let mut no_d = [0u8; 0];
    let mut no_d2 = [0u8; 0];
    acct!(cfg_ai, cfg_key, cfg_s, &mut cfg_d, PID);
    acct!(aft_ai, aft_key, aft_s, &mut aft_d, PID);
    acct!(auth_ai, auth_key, auth_s, &mut no_d, any_key());
    acct!(new_ai, new_key, new_s, &mut no_d2, any_key());
    let accounts = [cfg_ai, aft_ai, auth_ai, new_ai];
    let r = try_accounts!(SetDelegatedFeeAuthority, accounts, &[]);
    kani::cover!(r.is_ok(), "ok reachable");
    kani::cover!(r.is_err(), "err reachable");
    if r.is_ok() {
        assert!(auth_s, "authority signed");
        assert!(auth_key.to_bytes() == stored, "authority is config.fee_authority");
        assert!(aft_cfg == cfg_key.to_bytes(), "adaptive fee tier belongs to config");
    }
    core::mem::forget(r);
}

/// set_initialize_pool_authority: Ok => fee_authority signed, key == config.fee_authority, adaptive_fee_tier.whirlpools_config == config key (new authority account arbitrary)
// @verif prop=C04,C15 tier=quick timeout=300
#[kani::proof]
#[kani::unwind(40)]
#[kani::stub(alloc::fmt::format, stub_format)]
#[kani::stub(<anchor_lang::error::Error as core::convert::From<anchor_lang::error::ErrorCode>>::from, stub_err_from_anchor_code)]
#[kani::stub(<anchor_lang::error::Error as core::convert::From<::whirlpool::errors::ErrorCode>>::from, stub_err_from_code)]
#[kani::stub(<anchor_lang::prelude::Pubkey as core::fmt::Display>::fmt, stub_pubkey_display)]
#[kani::stub(anchor_lang::error::Error::with_account_name, stub_with_account_name)]
fn c04_set_initialize_pool_authority() {
    let mut cfg_d = config_data();
    let stored = k32(&cfg_d, CFG_FEE_AUTH);
    let mut aft_d = aft_data();
    let aft_cfg = k32(&aft_d, AFT_CONFIG);
    let mut no_d = [0u8; 0];
    let mut no_d2 = [0u8; 0];
    acct!(cfg_ai, cfg_key, cfg_s, &mut cfg_d, PID);
    acct!(aft_ai, aft_key, aft_s, &mut aft_d, PID);
    acct!(auth_ai, auth_key, auth_s, &mut no_d, any_key());
    acct!(new_ai, new_key, new_s, &mut no_d2, any_key());
    let accounts = [cfg_ai, aft_ai, auth_ai, new_ai];
    let r = try_accounts!(SetInitializePoolAuthority, accounts, &[]);
    kani::cover!(r.is_ok(), "ok reachable");
    kani::cover!(r.is_err(), "err reachable");
    if r.is_ok() {
        assert!(auth_s, "authority signed");
        assert!(auth_key.to_bytes() == stored, "authority is config.fee_authority");
        assert!(aft_cfg == cfg_key.to_bytes(), "adaptive fee tier belongs to config");
    }
    core::mem::forget(r);
}

/// set_fee_rate_by_delegated_fee_authority: Ok => delegated authority signed, key == adaptive_fee_tier.delegated_fee_authority, and the tier is the pool's tier (same config, same fee_tier_index, pool created with an adaptive fee tier)
// @verif prop=C04,C15 tier=quick timeout=300
#[kani::proof]
#[kani::unwind(40)]
#[kani::stub(alloc::fmt::format, stub_format)]
#[kani::stub(<anchor_lang::error::Error as core::convert::From<anchor_lang::error::ErrorCode>>::from, stub_err_from_anchor_code)]
#[kani::stub(<anchor_lang::error::Error as core::convert::From<::whirlpool::errors::ErrorCode>>::from, stub_err_from_code)]
#[kani::stub(<anchor_lang::prelude::Pubkey as core::fmt::Display>::fmt, stub_pubkey_display)]
#[kani::stub(anchor_lang::error::Error::with_account_name, stub_with_account_name)]
fn c04_set_fee_rate_by_delegated_fee_authority() {
    let mut wp_d = whirlpool_data();
    let wp_cfg = k32(&wp_d, WP_CONFIG);
    let wp_ts = [wp_d[WP_TICK_SPACING], wp_d[WP_TICK_SPACING + 1]];
    let wp_idx = [wp_d[WP_FEE_TIER_INDEX], wp_d[WP_FEE_TIER_INDEX + 1]];
    let mut aft_d = aft_data();
    let aft_cfg = k32(&aft_d, AFT_CONFIG);
    let aft_idx = [aft_d[AFT_INDEX], aft_d[AFT_INDEX + 1]];
    let stored = k32(&aft_d, AFT_DELEGATED_AUTH);
    let mut no_d = [0u8; 0];
    acct!(wp_ai, wp_key, wp_s, &mut wp_d, PID);
    acct!(aft_ai, aft_key, aft_s, &mut aft_d, PID);
    acct!(auth_ai, auth_key, auth_s, &mut no_d, any_key());
    let accounts = [wp_ai, aft_ai, auth_ai];
    let r = try_accounts!(SetFeeRateByDelegatedFeeAuthority, accounts, &[]);
    kani::cover!(r.is_ok(), "ok reachable");
    kani::cover!(r.is_err(), "err reachable");
    if r.is_ok() {
        assert!(auth_s, "authority signed");
        assert!(auth_key.to_bytes() == stored, "authority is adaptive_fee_tier.delegated_fee_authority");
        assert!(aft_cfg == wp_cfg, "tier and pool under the same config");
        assert!(aft_idx == wp_idx, "tier is the pool's fee tier");
        assert!(wp_idx != wp_ts, "pool was initialized with an adaptive fee tier");
    }
    core::mem::forget(r);
}

/// set_adaptive_fee_constants: Ok => fee_authority signed, key == config.fee_authority, whirlpool.whirlpools_config == config key, oracle.whirlpool == whirlpool key
// @verif prop=C04,C15 tier=thorough timeout=900
#[kani::proof]
#[kani::unwind(40)]
#[kani::stub(alloc::fmt::format, stub_format)]
#[kani::stub(<anchor_lang::error::Error as core::convert::From<anchor_lang::error::ErrorCode>>::from, stub_err_from_anchor_code)]
#[kani::stub(<anchor_lang::error::Error as core::convert::From<::whirlpool::errors::ErrorCode>>::from, stub_err_from_code)]
#[kani::stub(<anchor_lang::prelude::Pubkey as core::fmt::Display>::fmt, stub_pubkey_display)]
#[kani::stub(anchor_lang::error::Error::with_account_name, stub_with_account_name)]
fn c04_set_adaptive_fee_constants() {
    let mut wp_d = whirlpool_data();
    let wp_cfg = k32(&wp_d, WP_CONFIG);
    let mut cfg_d = config_data();
    let stored = k32(&cfg_d, CFG_FEE_AUTH);
    let mut ora_d = oracle_data();
    let ora_wp = k32(&ora_d, ORA_WHIRLPOOL);
    let mut no_d = [0u8; 0];
    acct!(wp_ai, wp_key, wp_s, &mut wp_d, PID);
    acct!(cfg_ai, cfg_key, cfg_s, &mut cfg_d, PID);
    acct!(ora_ai, ora_key, ora_s, &mut ora_d, PID);
    acct!(auth_ai, auth_key, auth_s, &mut no_d, any_key());
    let accounts = [wp_ai, cfg_ai, ora_ai, auth_ai];
    let r = try_accounts!(SetAdaptiveFeeConstants, accounts, &[]);
    kani::cover!(r.is_ok(), "ok reachable");
    kani::cover!(r.is_err(), "err reachable");
    if r.is_ok() {
        assert!(auth_s, "authority signed");
        assert!(auth_key.to_bytes() == stored, "authority is config.fee_authority");
        assert!(wp_cfg == cfg_key.to_bytes(), "whirlpool belongs to config");
        assert!(ora_wp == wp_key.to_bytes(), "oracle belongs to whirlpool");
    }
    core::mem::forget(r);
}

/// set_config_feature_flag: Ok => authority signed and its key is one of auth::admin::ADMINS (table of the feature set this crate is built with: default/localnet)
// @verif prop=C04 tier=quick timeout=300
#[kani::proof]
#[kani::unwind(40)]
#[kani::stub(alloc::fmt::format, stub_format)]
#[kani::stub(<anchor_lang::error::Error as core::convert::From<anchor_lang::error::ErrorCode>>::from, stub_err_from_anchor_code)]
#[kani::stub(<anchor_lang::error::Error as core::convert::From<::whirlpool::errors::ErrorCode>>::from, stub_err_from_code)]
#[kani::stub(<anchor_lang::prelude::Pubkey as core::fmt::Display>::fmt, stub_pubkey_display)]
#[kani::stub(anchor_lang::error::Error::with_account_name, stub_with_account_name)]
fn c04_set_config_feature_flag() {
    let mut cfg_d = config_data();
    let mut no_d = [0u8; 0];
    acct!(cfg_ai, cfg_key, cfg_s, &mut cfg_d, PID);
    acct!(auth_ai, auth_key, auth_s, &mut no_d, any_key());
    let accounts = [cfg_ai, auth_ai];
    let r = try_accounts!(SetConfigFeatureFlag, accounts, &[]);
    kani::cover!(r.is_ok(), "ok reachable");
    kani::cover!(r.is_err(), "err reachable");
    if r.is_ok() {
        assert!(auth_s, "authority signed");
        let admins = ::whirlpool::auth::admin::ADMINS;
        assert!(auth_key == admins[0] || auth_key == admins[1], "authority is an admin key");
    }
    core::mem::forget(r);
}

/// set_config_extension_authority: Ok => config_extension_authority signed, key == config_extension.config_extension_authority, config_extension.whirlpools_config == config key (new config extension authority account arbitrary)
// @verif prop=C04,C15 tier=quick timeout=300
#[kani::proof]
#[kani::unwind(40)]
#[kani::stub(alloc::fmt::format, stub_format)]
#[kani::stub(<anchor_lang::error::Error as core::convert::From<anchor_lang::error::ErrorCode>>::from, stub_err_from_anchor_code)]
#[kani::stub(<anchor_lang::error::Error as core::convert::From<::whirlpool::errors::ErrorCode>>::from, stub_err_from_code)]
#[kani::stub(<anchor_lang::prelude::Pubkey as core::fmt::Display>::fmt, stub_pubkey_display)]
#[kani::stub(anchor_lang::error::Error::with_account_name, stub_with_account_name)]
fn c04_set_config_extension_authority() {
    let mut cfg_d = config_data();
    let mut ext_d = ext_data();
    let ext_cfg = k32(&ext_d, EXT_CONFIG);
    let stored = k32(&ext_d, EXT_CE_AUTH);
    let mut no_d = [0u8; 0];
    let mut no_d2 = [0u8; 0];
    acct!(cfg_ai, cfg_key, cfg_s, &mut cfg_d, PID);
    acct!(ext_ai, ext_key, ext_s, &mut ext_d, PID);
    acct!(auth_ai, auth_key, auth_s, &mut no_d, any_key());
    acct!(new_ai, new_key, new_s, &mut no_d2, any_key());
    let accounts = [cfg_ai, ext_ai, auth_ai, new_ai];
    let r = try_accounts!(SetConfigExtensionAuthority, accounts, &[]);
    kani::cover!(r.is_ok(), "ok reachable");
    kani::cover!(r.is_err(), "err reachable");
    if r.is_ok() {
        assert!(auth_s, "authority signed");
        assert!(auth_key.to_bytes() == stored, "authority is config_extension.config_extension_authority");
        assert!(ext_cfg == cfg_key.to_bytes(), "config extension belongs to config");
    }
    core::mem::forget(r);
}

/// set_token_badge_authority: Ok => config_extension_authority signed, key == config_extension.config_extension_authority, config_extension.whirlpools_config == config key (new token badge authority account arbitrary)
// @verif prop=C04,C15 tier=quick timeout=300
#[kani::proof]
#[kani::unwind(40)]
#[kani::stub(alloc::fmt::format, stub_format)]
#[kani::stub(<anchor_lang::error::Error as core::convert::From<anchor_lang::error::ErrorCode>>::from, stub_err_from_anchor_code)]
#[kani::stub(<anchor_lang::error::Error as core::convert::From<::whirlpool::errors::ErrorCode>>::from, stub_err_from_code)]
#[kani::stub(<anchor_lang::prelude::Pubkey as core::fmt::Display>::fmt, stub_pubkey_display)]
#[kani::stub(anchor_lang::error::Error::with_account_name, stub_with_account_name)]
fn c04_set_token_badge_authority() {
    let mut cfg_d = config_data();
    let mut ext_d = ext_data();
    let ext_cfg = k32(&ext_d, EXT_CONFIG);
    let stored = k32(&ext_d, EXT_CE_AUTH);
    let mut no_d = [0u8; 0];
    let mut no_d2 = [0u8; 0];
    acct!(cfg_ai, cfg_key, cfg_s, &mut cfg_d, PID);
    acct!(ext_ai, ext_key, ext_s, &mut ext_d, PID);
    acct!(auth_ai, auth_key, auth_s, &mut no_d, any_key());
    acct!(new_ai, new_key, new_s, &mut no_d2, any_key());
    let accounts = [cfg_ai, ext_ai, auth_ai, new_ai];
    let r = try_accounts!(SetTokenBadgeAuthority, accounts, &[]);
    kani::cover!(r.is_ok(), "ok reachable");
    kani::cover!(r.is_err(), "err reachable");
    if r.is_ok() {
        assert!(auth_s, "authority signed");
        assert!(auth_key.to_bytes() == stored, "authority is config_extension.config_extension_authority");
        assert!(ext_cfg == cfg_key.to_bytes(), "config extension belongs to config");
    }
    core::mem::forget(r);
}

/// set_token_badge_attribute: Ok => token_badge_authority signed, key == config_extension.token_badge_authority, extension and badge belong to config, badge.token_mint == mint key. Mint: 82 symbolic bytes owned by Token or Token-2022
// @verif prop=C04,C15 tier=thorough timeout=900
#[kani::proof]
#[kani::unwind(40)]
#[kani::stub(alloc::fmt::format, stub_format)]
#[kani::stub(<anchor_lang::error::Error as core::convert::From<anchor_lang::error::ErrorCode>>::from, stub_err_from_anchor_code)]
#[kani::stub(<anchor_lang::error::Error as core::convert::From<::whirlpool::errors::ErrorCode>>::from, stub_err_from_code)]
#[kani::stub(<anchor_lang::prelude::Pubkey as core::fmt::Display>::fmt, stub_pubkey_display)]
#[kani::stub(anchor_lang::error::Error::with_account_name, stub_with_account_name)]
fn c04_set_token_badge_attribute() {
    let mut cfg_d = config_data();
    let mut ext_d = ext_data();
    let ext_cfg = k32(&ext_d, EXT_CONFIG);
    let stored = k32(&ext_d, EXT_TB_AUTH);
    let mut mint_d: [u8; 82] = kani::any();
    let mut tb_d = token_badge_data();
    let tb_cfg = k32(&tb_d, TB_CONFIG);
    let tb_mint = k32(&tb_d, TB_MINT);
    let mut no_d = [0u8; 0];
    acct!(cfg_ai, cfg_key, cfg_s, &mut cfg_d, PID);
    acct!(ext_ai, ext_key, ext_s, &mut ext_d, PID);
    acct!(auth_ai, auth_key, auth_s, &mut no_d, any_key());
    acct!(mint_ai, mint_key, mint_s, &mut mint_d, if kani::any() { anchor_spl::token::ID } else { anchor_spl::token_2022::ID });
    acct!(tb_ai, tb_key, tb_s, &mut tb_d, PID);
    let accounts = [cfg_ai, ext_ai, auth_ai, mint_ai, tb_ai];
    let r = try_accounts!(SetTokenBadgeAttribute, accounts, &[]);
    kani::cover!(r.is_ok(), "ok reachable");
    kani::cover!(r.is_err(), "err reachable");
    if r.is_ok() {
        assert!(auth_s, "authority signed");
        assert!(auth_key.to_bytes() == stored, "authority is config_extension.token_badge_authority");
        assert!(ext_cfg == cfg_key.to_bytes(), "config extension belongs to config");
        assert!(tb_cfg == cfg_key.to_bytes(), "token badge belongs to config");
        assert!(tb_mint == mint_key.to_bytes(), "token badge is the badge of that mint");
    }
    core::mem::forget(r);
}

/// vacuity twin: must FAIL (a correctly signed set_default_protocol_fee_rate is accepted)
// @verif prop=C04 tier=quick timeout=300 twin
#[kani::proof]
#[kani::unwind(40)]
#[kani::stub(alloc::fmt::format, stub_format)]
#[kani::stub(<anchor_lang::error::Error as core::convert::From<anchor_lang::error::ErrorCode>>::from, stub_err_from_anchor_code)]
#[kani::stub(<anchor_lang::error::Error as core::convert::From<::whirlpool::errors::ErrorCode>>::from, stub_err_from_code)]
#[kani::stub(<anchor_lang::prelude::Pubkey as core::fmt::Display>::fmt, stub_pubkey_display)]
#[kani::stub(anchor_lang::error::Error::with_account_name, stub_with_account_name)]
fn c04_twin_must_fail() {
    let mut cfg_d = config_data();
    let mut no_d = [0u8; 0];
    acct!(cfg_ai, cfg_key, cfg_s, &mut cfg_d, PID);
    acct!(auth_ai, auth_key, auth_s, &mut no_d, any_key());
    let accounts = [cfg_ai, auth_ai];
    let r = try_accounts!(SetDefaultProtocolFeeRate, accounts, &[]);
    let ok = r.is_ok();
    core::mem::forget(r);
    assert!(!ok, "twin: reachable Ok must be reported");
}

// ---------------------------------------------------------------------------------------------------------
// `init` structs.  Anchor runs the `init` constraint (Rent::get, PDA derivation, System-program CPIs, then
// `try_from_unchecked`) *before* the `address = ...` / `constraint = ...` checks of the other fields, so these
// harnesses need a model of the CPI instead of stopping there:
//  * `Rent::get`  -> `Ok(Rent::default())`
//  * `anchor_lang::system_program::{create_account, transfer, allocate, assign}` -> nondeterministic Ok/Err; on Ok the
//    System program's effect on the passed AccountInfos (lamports moved, owner assigned).  Signature / "account in use"
//    checks of the System program are NOT modelled (the model accepts more than the real one: sound for `Ok => ...`).
//    The to-be-created account is handed in with its final data length already (zero bytes), because a `&mut [u8]`
//    cannot grow; the stubs assert that the requested space equals that length.
//  * `Pubkey::find_program_address` -> `common::stub_find_program_address` (ideal-hash memo).
use anchor_lang::system_program as sp;

pub fn stub_rent_get() -> core::result::Result<Rent, ProgramError> {
    Ok(Rent::default())
}
fn cpi_outcome() -> Result<()> {
    if kani::any() {
        Ok(())
    } else {
        Err(stub_err_from_anchor_code(anchor_lang::error::ErrorCode::AccountNotEnoughKeys))
    }
}
fn move_lamports(from: &AccountInfo, to: &AccountInfo, lamports: u64) -> bool {
    let f = from.lamports();
    let t = to.lamports();
    if f < lamports || t.checked_add(lamports).is_none() {
        return false;
    }
    **from.lamports.borrow_mut() = f - lamports;
    **to.lamports.borrow_mut() = t + lamports;
    true
}
pub fn stub_sp_create_account<'info>(
    ctx: CpiContext<'_, '_, '_, 'info, sp::CreateAccount<'info>>,
    lamports: u64,
    space: u64,
    owner: &Pubkey,
) -> Result<()> {
    cpi_outcome()?;
    assert!(ctx.accounts.to.data_len() as u64 == space, "cpi model: account pre-sized by the harness");
    if !move_lamports(&ctx.accounts.from, &ctx.accounts.to, lamports) {
        return Err(stub_err_from_anchor_code(anchor_lang::error::ErrorCode::AccountNotEnoughKeys));
    }
    ctx.accounts.to.assign(owner);
    Ok(())
}
pub fn stub_sp_transfer<'info>(ctx: CpiContext<'_, '_, '_, 'info, sp::Transfer<'info>>, lamports: u64) -> Result<()> {
    cpi_outcome()?;
    if !move_lamports(&ctx.accounts.from, &ctx.accounts.to, lamports) {
        return Err(stub_err_from_anchor_code(anchor_lang::error::ErrorCode::AccountNotEnoughKeys));
    }
    Ok(())
}
pub fn stub_sp_allocate<'info>(ctx: CpiContext<'_, '_, '_, 'info, sp::Allocate<'info>>, space: u64) -> Result<()> {
    cpi_outcome()?;
    assert!(ctx.accounts.account_to_allocate.data_len() as u64 == space, "cpi model: account pre-sized by the harness");
    Ok(())
}
pub fn stub_sp_assign<'info>(ctx: CpiContext<'_, '_, '_, 'info, sp::Assign<'info>>, owner: &Pubkey) -> Result<()> {
    cpi_outcome()?;
    ctx.accounts.account_to_assign.assign(owner);
    Ok(())
}

/// like `acct!` with a symbolic `executable` flag (program accounts)
macro_rules! acct_x {
    ($ai:ident, $key:ident, $signer:ident, $data:expr, $owner:expr) => {
        let $key = any_key();
        let $signer: bool = kani::any();
        let writable: bool = kani::any();
        let executable: bool = kani::any();
        let mut lamports: u64 = kani::any();
        let owner: Pubkey = $owner;
        let $ai = AccountInfo::new(&$key, $signer, writable, &mut lamports, $data, &owner, executable, 0);
    };
}

/// initialize_config: InitializeConfig::try_accounts (config `init` through the CPI model) Ok => funder signed and its key is one of auth::admin::ADMINS (default/localnet table)
// @verif prop=C04 tier=thorough timeout=900
#[kani::proof]
#[kani::unwind(40)]
#[kani::stub(alloc::fmt::format, stub_format)]
#[kani::stub(<anchor_lang::error::Error as core::convert::From<anchor_lang::error::ErrorCode>>::from, stub_err_from_anchor_code)]
#[kani::stub(<anchor_lang::error::Error as core::convert::From<::whirlpool::errors::ErrorCode>>::from, stub_err_from_code)]
#[kani::stub(<anchor_lang::prelude::Pubkey as core::fmt::Display>::fmt, stub_pubkey_display)]
#[kani::stub(anchor_lang::error::Error::with_account_name, stub_with_account_name)]
#[kani::stub(<anchor_lang::prelude::Rent as anchor_lang::solana_program::sysvar::Sysvar>::get, stub_rent_get)]
#[kani::stub(anchor_lang::system_program::create_account, stub_sp_create_account)]
#[kani::stub(anchor_lang::system_program::transfer, stub_sp_transfer)]
#[kani::stub(anchor_lang::system_program::allocate, stub_sp_allocate)]
#[kani::stub(anchor_lang::system_program::assign, stub_sp_assign)]
fn c04_initialize_config() {
    let mut cfg_d = [0u8; WhirlpoolsConfig::LEN];
    let mut no_d = [0u8; 0];
    let mut no_d2 = [0u8; 0];
    acct!(cfg_ai, cfg_key, cfg_s, &mut cfg_d, any_key());
    acct!(fund_ai, fund_key, fund_s, &mut no_d, any_key());
    acct_x!(sys_ai, sys_key, sys_s, &mut no_d2, any_key());
    let accounts = [cfg_ai, fund_ai, sys_ai];
    let r = try_accounts!(InitializeConfig, accounts, &[]);
    kani::cover!(r.is_ok(), "ok reachable");
    kani::cover!(r.is_err(), "err reachable");
    if r.is_ok() {
        assert!(fund_s, "funder signed");
        let admins = ::whirlpool::auth::admin::ADMINS;
        assert!(fund_key == admins[0] || fund_key == admins[1], "funder is an admin key");
    }
    core::mem::forget(r);
}

/// initialize_fee_tier: InitializeFeeTier::try_accounts (init through the CPI / PDA model) Ok => fee_authority signed, key == config.fee_authority, fee_tier key == PDA(["fee_tier", config, tick_spacing le]) of the passed config
// @verif prop=C04,C15 tier=thorough timeout=900
#[kani::proof]
#[kani::unwind(40)]
#[kani::stub(alloc::fmt::format, stub_format)]
#[kani::stub(<anchor_lang::error::Error as core::convert::From<anchor_lang::error::ErrorCode>>::from, stub_err_from_anchor_code)]
#[kani::stub(<anchor_lang::error::Error as core::convert::From<::whirlpool::errors::ErrorCode>>::from, stub_err_from_code)]
#[kani::stub(<anchor_lang::prelude::Pubkey as core::fmt::Display>::fmt, stub_pubkey_display)]
#[kani::stub(anchor_lang::error::Error::with_account_name, stub_with_account_name)]
#[kani::stub(<anchor_lang::prelude::Rent as anchor_lang::solana_program::sysvar::Sysvar>::get, stub_rent_get)]
#[kani::stub(anchor_lang::system_program::create_account, stub_sp_create_account)]
#[kani::stub(anchor_lang::system_program::transfer, stub_sp_transfer)]
#[kani::stub(anchor_lang::system_program::allocate, stub_sp_allocate)]
#[kani::stub(anchor_lang::system_program::assign, stub_sp_assign)]
#[kani::stub(anchor_lang::prelude::Pubkey::find_program_address, stub_find_program_address)]
fn c04_initialize_fee_tier() {
    let mut cfg_d = config_data();
    let stored = k32(&cfg_d, CFG_FEE_AUTH);
    let mut new_d = [0u8; FeeTier::LEN];
    let ix: [u8; 2] = kani::any();
    let mut no_d = [0u8; 0];
    let mut no_d2 = [0u8; 0];
    let mut no_d3 = [0u8; 0];
    acct!(cfg_ai, cfg_key, cfg_s, &mut cfg_d, PID);
    acct!(new_ai, new_key, new_s, &mut new_d, any_key());
    acct!(fund_ai, fund_key, fund_s, &mut no_d, any_key());
    acct!(auth_ai, auth_key, auth_s, &mut no_d2, any_key());
    acct_x!(sys_ai, sys_key, sys_s, &mut no_d3, any_key());
    let accounts = [cfg_ai, new_ai, fund_ai, auth_ai, sys_ai];
    let r = try_accounts!(InitializeFeeTier, accounts, &ix);
    kani::cover!(r.is_ok(), "ok reachable");
    kani::cover!(r.is_err(), "err reachable");
    if r.is_ok() {
        assert!(auth_s, "authority signed");
        assert!(auth_key.to_bytes() == stored, "authority is config.fee_authority");
        let (pda, _) = crate::common::pda::derive(&[b"fee_tier", cfg_key.as_ref(), &ix], &PID);
        assert!(new_key == pda, "new account is the PDA of this config");
    }
    core::mem::forget(r);
}

/// initialize_adaptive_fee_tier: InitializeAdaptiveFeeTier::try_accounts (init through the CPI / PDA model) Ok => fee_authority signed, key == config.fee_authority, adaptive_fee_tier key == PDA(["fee_tier", config, fee_tier_index le]) of the passed config
// @verif prop=C04,C15 tier=thorough timeout=900
#[kani::proof]
#[kani::unwind(40)]
#[kani::stub(alloc::fmt::format, stub_format)]
#[kani::stub(<anchor_lang::error::Error as core::convert::From<anchor_lang::error::ErrorCode>>::from, stub_err_from_anchor_code)]
#[kani::stub(<anchor_lang::error::Error as core::convert::From<::whirlpool::errors::ErrorCode>>::from, stub_err_from_code)]
#[kani::stub(<anchor_lang::prelude::Pubkey as core::fmt::Display>::fmt, stub_pubkey_display)]
#[kani::stub(anchor_lang::error::Error::with_account_name, stub_with_account_name)]
#[kani::stub(<anchor_lang::prelude::Rent as anchor_lang::solana_program::sysvar::Sysvar>::get, stub_rent_get)]
#[kani::stub(anchor_lang::system_program::create_account, stub_sp_create_account)]
#[kani::stub(anchor_lang::system_program::transfer, stub_sp_transfer)]
#[kani::stub(anchor_lang::system_program::allocate, stub_sp_allocate)]
#[kani::stub(anchor_lang::system_program::assign, stub_sp_assign)]
#[kani::stub(anchor_lang::prelude::Pubkey::find_program_address, stub_find_program_address)]
fn c04_initialize_adaptive_fee_tier() {
    let mut cfg_d = config_data();
    let stored = k32(&cfg_d, CFG_FEE_AUTH);
    let mut new_d = [0u8; AdaptiveFeeTier::LEN];
    let ix: [u8; 2] = kani::any();
    let mut no_d = [0u8; 0];
    let mut no_d2 = [0u8; 0];
    let mut no_d3 = [0u8; 0];
    acct!(cfg_ai, cfg_key, cfg_s, &mut cfg_d, PID);
    acct!(new_ai, new_key, new_s, &mut new_d, any_key());
    acct!(fund_ai, fund_key, fund_s, &mut no_d, any_key());
    acct!(auth_ai, auth_key, auth_s, &mut no_d2, any_key());
    acct_x!(sys_ai, sys_key, sys_s, &mut no_d3, any_key());
    let accounts = [cfg_ai, new_ai, fund_ai, auth_ai, sys_ai];
    let r = try_accounts!(InitializeAdaptiveFeeTier, accounts, &ix);
    kani::cover!(r.is_ok(), "ok reachable");
    kani::cover!(r.is_err(), "err reachable");
    if r.is_ok() {
        assert!(auth_s, "authority signed");
        assert!(auth_key.to_bytes() == stored, "authority is config.fee_authority");
        let (pda, _) = crate::common::pda::derive(&[b"fee_tier", cfg_key.as_ref(), &ix], &PID);
        assert!(new_key == pda, "new account is the PDA of this config");
    }
    core::mem::forget(r);
}

/// initialize_config_extension: InitializeConfigExtension::try_accounts (init through the CPI / PDA model) Ok => fee_authority signed, key == config.fee_authority, config_extension key == PDA(["config_extension", config])
// @verif prop=C04,C15 tier=thorough timeout=900
#[kani::proof]
#[kani::unwind(40)]
#[kani::stub(alloc::fmt::format, stub_format)]
#[kani::stub(<anchor_lang::error::Error as core::convert::From<anchor_lang::error::ErrorCode>>::from, stub_err_from_anchor_code)]
#[kani::stub(<anchor_lang::error::Error as core::convert::From<::whirlpool::errors::ErrorCode>>::from, stub_err_from_code)]
#[kani::stub(<anchor_lang::prelude::Pubkey as core::fmt::Display>::fmt, stub_pubkey_display)]
#[kani::stub(anchor_lang::error::Error::with_account_name, stub_with_account_name)]
#[kani::stub(<anchor_lang::prelude::Rent as anchor_lang::solana_program::sysvar::Sysvar>::get, stub_rent_get)]
#[kani::stub(anchor_lang::system_program::create_account, stub_sp_create_account)]
#[kani::stub(anchor_lang::system_program::transfer, stub_sp_transfer)]
#[kani::stub(anchor_lang::system_program::allocate, stub_sp_allocate)]
#[kani::stub(anchor_lang::system_program::assign, stub_sp_assign)]
#[kani::stub(anchor_lang::prelude::Pubkey::find_program_address, stub_find_program_address)]
fn c04_initialize_config_extension() {
    let mut cfg_d = config_data();
    let stored = k32(&cfg_d, CFG_FEE_AUTH);
    let mut new_d = [0u8; WhirlpoolsConfigExtension::LEN];
    let mut no_d = [0u8; 0];
    let mut no_d2 = [0u8; 0];
    let mut no_d3 = [0u8; 0];
    acct!(cfg_ai, cfg_key, cfg_s, &mut cfg_d, PID);
    acct!(new_ai, new_key, new_s, &mut new_d, any_key());
    acct!(fund_ai, fund_key, fund_s, &mut no_d, any_key());
    acct!(auth_ai, auth_key, auth_s, &mut no_d2, any_key());
    acct_x!(sys_ai, sys_key, sys_s, &mut no_d3, any_key());
    let accounts = [cfg_ai, new_ai, fund_ai, auth_ai, sys_ai];
    let r = try_accounts!(InitializeConfigExtension, accounts, &[]);
    kani::cover!(r.is_ok(), "ok reachable");
    kani::cover!(r.is_err(), "err reachable");
    if r.is_ok() {
        assert!(auth_s, "authority signed");
        assert!(auth_key.to_bytes() == stored, "authority is config.fee_authority");
        let (pda, _) = crate::common::pda::derive(&[b"config_extension", cfg_key.as_ref()], &PID);
        assert!(new_key == pda, "new account is the PDA of this config");
    }
    core::mem::forget(r);
}

/// serialized `Rent::default()` (bincode: u64 lamports_per_byte_year, f64 exemption_threshold, u8 burn_percent)
fn rent_sysvar_data() -> [u8; 17] {
    let mut d = [0u8; 17];
    d[0..8].copy_from_slice(&3480u64.to_le_bytes());
    d[8..16].copy_from_slice(&2.0f64.to_le_bytes());
    d[16] = 50;
    d
}
fn token_program_id() -> Pubkey {
    if kani::any() {
        anchor_spl::token::ID
    } else {
        anchor_spl::token_2022::ID
    }
}

/// delete_token_badge: DeleteTokenBadge::try_accounts Ok => token_badge_authority signed, key == config_extension.token_badge_authority, extension and badge belong to config, badge key == PDA(["token_badge", config, mint]). Mint: 82 symbolic bytes owned by Token or Token-2022
// @verif prop=C04,C15 tier=thorough timeout=900 large
#[kani::proof]
#[kani::unwind(40)]
#[kani::stub(alloc::fmt::format, stub_format)]
#[kani::stub(<anchor_lang::error::Error as core::convert::From<anchor_lang::error::ErrorCode>>::from, stub_err_from_anchor_code)]
#[kani::stub(<anchor_lang::error::Error as core::convert::From<::whirlpool::errors::ErrorCode>>::from, stub_err_from_code)]
#[kani::stub(<anchor_lang::prelude::Pubkey as core::fmt::Display>::fmt, stub_pubkey_display)]
#[kani::stub(anchor_lang::error::Error::with_account_name, stub_with_account_name)]
#[kani::stub(anchor_lang::prelude::Pubkey::find_program_address, stub_find_program_address)]
fn c04_delete_token_badge() {
    let mut cfg_d = config_data();
    let mut ext_d = ext_data();
    let ext_cfg = k32(&ext_d, EXT_CONFIG);
    let stored = k32(&ext_d, EXT_TB_AUTH);
    let mut mint_d: [u8; 82] = kani::any();
    let mut tb_d = token_badge_data();
    let tb_cfg = k32(&tb_d, TB_CONFIG);
    let mut no_d = [0u8; 0];
    let mut no_d2 = [0u8; 0];
    acct!(cfg_ai, cfg_key, cfg_s, &mut cfg_d, PID);
    acct!(ext_ai, ext_key, ext_s, &mut ext_d, PID);
    acct!(auth_ai, auth_key, auth_s, &mut no_d, any_key());
    acct!(mint_ai, mint_key, mint_s, &mut mint_d, token_program_id());
    acct!(tb_ai, tb_key, tb_s, &mut tb_d, PID);
    acct!(rcv_ai, rcv_key, rcv_s, &mut no_d2, any_key());
    let accounts = [cfg_ai, ext_ai, auth_ai, mint_ai, tb_ai, rcv_ai];
    let r = try_accounts!(DeleteTokenBadge, accounts, &[]);
    kani::cover!(r.is_ok(), "ok reachable");
    kani::cover!(r.is_err(), "err reachable");
    if r.is_ok() {
        assert!(auth_s, "authority signed");
        assert!(auth_key.to_bytes() == stored, "authority is config_extension.token_badge_authority");
        assert!(ext_cfg == cfg_key.to_bytes(), "config extension belongs to config");
        assert!(tb_cfg == cfg_key.to_bytes(), "token badge belongs to config");
        let (pda, _) = crate::common::pda::derive(&[b"token_badge", cfg_key.as_ref(), mint_key.as_ref()], &PID);
        assert!(tb_key == pda, "token badge is the PDA of this config and mint");
    }
    core::mem::forget(r);
}

/// initialize_token_badge: InitializeTokenBadge::try_accounts (init through the CPI / PDA model) Ok => token_badge_authority signed, key == config_extension.token_badge_authority, extension belongs to config, badge key == PDA(["token_badge", config, mint])
// @verif prop=C04,C15 tier=thorough timeout=900 large
#[kani::proof]
#[kani::unwind(40)]
#[kani::stub(alloc::fmt::format, stub_format)]
#[kani::stub(<anchor_lang::error::Error as core::convert::From<anchor_lang::error::ErrorCode>>::from, stub_err_from_anchor_code)]
#[kani::stub(<anchor_lang::error::Error as core::convert::From<::whirlpool::errors::ErrorCode>>::from, stub_err_from_code)]
#[kani::stub(<anchor_lang::prelude::Pubkey as core::fmt::Display>::fmt, stub_pubkey_display)]
#[kani::stub(anchor_lang::error::Error::with_account_name, stub_with_account_name)]
#[kani::stub(<anchor_lang::prelude::Rent as anchor_lang::solana_program::sysvar::Sysvar>::get, stub_rent_get)]
#[kani::stub(anchor_lang::system_program::create_account, stub_sp_create_account)]
#[kani::stub(anchor_lang::system_program::transfer, stub_sp_transfer)]
#[kani::stub(anchor_lang::system_program::allocate, stub_sp_allocate)]
#[kani::stub(anchor_lang::system_program::assign, stub_sp_assign)]
#[kani::stub(anchor_lang::prelude::Pubkey::find_program_address, stub_find_program_address)]
fn c04_initialize_token_badge() {
    let mut cfg_d = config_data();
    let mut ext_d = ext_data();
    let ext_cfg = k32(&ext_d, EXT_CONFIG);
    let stored = k32(&ext_d, EXT_TB_AUTH);
    let mut mint_d: [u8; 82] = kani::any();
    let mut tb_d = [0u8; TokenBadge::LEN];
    let mut no_d = [0u8; 0];
    let mut no_d2 = [0u8; 0];
    let mut no_d3 = [0u8; 0];
    acct!(cfg_ai, cfg_key, cfg_s, &mut cfg_d, PID);
    acct!(ext_ai, ext_key, ext_s, &mut ext_d, PID);
    acct!(auth_ai, auth_key, auth_s, &mut no_d, any_key());
    acct!(mint_ai, mint_key, mint_s, &mut mint_d, token_program_id());
    acct!(tb_ai, tb_key, tb_s, &mut tb_d, any_key());
    acct!(fund_ai, fund_key, fund_s, &mut no_d2, any_key());
    acct_x!(sys_ai, sys_key, sys_s, &mut no_d3, any_key());
    let accounts = [cfg_ai, ext_ai, auth_ai, mint_ai, tb_ai, fund_ai, sys_ai];
    let r = try_accounts!(InitializeTokenBadge, accounts, &[]);
    kani::cover!(r.is_ok(), "ok reachable");
    kani::cover!(r.is_err(), "err reachable");
    if r.is_ok() {
        assert!(auth_s, "authority signed");
        assert!(auth_key.to_bytes() == stored, "authority is config_extension.token_badge_authority");
        assert!(ext_cfg == cfg_key.to_bytes(), "config extension belongs to config");
        let (pda, _) = crate::common::pda::derive(&[b"token_badge", cfg_key.as_ref(), mint_key.as_ref()], &PID);
        assert!(tb_key == pda, "token badge is the PDA of this config and mint");
    }
    core::mem::forget(r);
}

/// initialize_reward_v2: InitializeRewardV2::try_accounts Ok => reward_authority signed and key == whirlpool.reward_authority(). Mint: 82 symbolic bytes owned by Token or Token-2022; token badge PDA through the ideal-hash model; rent sysvar account holds Rent::default()
// @verif prop=C04 tier=thorough timeout=900 large
#[kani::proof]
#[kani::unwind(40)]
#[kani::stub(alloc::fmt::format, stub_format)]
#[kani::stub(<anchor_lang::error::Error as core::convert::From<anchor_lang::error::ErrorCode>>::from, stub_err_from_anchor_code)]
#[kani::stub(<anchor_lang::error::Error as core::convert::From<::whirlpool::errors::ErrorCode>>::from, stub_err_from_code)]
#[kani::stub(<anchor_lang::prelude::Pubkey as core::fmt::Display>::fmt, stub_pubkey_display)]
#[kani::stub(anchor_lang::error::Error::with_account_name, stub_with_account_name)]
#[kani::stub(anchor_lang::prelude::Pubkey::find_program_address, stub_find_program_address)]
fn c04_initialize_reward_v2() {
    let mut wp_d = whirlpool_data();
    let stored = k32(&wp_d, WP_REWARD_AUTH);
    let mut mint_d: [u8; 82] = kani::any();
    let mut rent_d = rent_sysvar_data();
    let mut no_d = [0u8; 0];
    let mut no_d2 = [0u8; 0];
    let mut no_d3 = [0u8; 0];
    let mut no_d4 = [0u8; 0];
    let mut no_d5 = [0u8; 0];
    let mut no_d6 = [0u8; 0];
    acct!(auth_ai, auth_key, auth_s, &mut no_d, any_key());
    acct!(fund_ai, fund_key, fund_s, &mut no_d2, any_key());
    acct!(wp_ai, wp_key, wp_s, &mut wp_d, PID);
    acct!(mint_ai, mint_key, mint_s, &mut mint_d, token_program_id());
    acct!(tb_ai, tb_key, tb_s, &mut no_d3, any_key());
    acct!(va_ai, va_key, va_s, &mut no_d4, any_key());
    acct_x!(tp_ai, tp_key, tp_s, &mut no_d5, any_key());
    acct_x!(sys_ai, sys_key, sys_s, &mut no_d6, any_key());
    acct!(rent_ai, rent_key, rent_s, &mut rent_d, any_key());
    let accounts = [auth_ai, fund_ai, wp_ai, mint_ai, tb_ai, va_ai, tp_ai, sys_ai, rent_ai];
    let r = try_accounts!(InitializeRewardV2, accounts, &[]);
    kani::cover!(r.is_ok(), "ok reachable");
    kani::cover!(r.is_err(), "err reachable");
    if r.is_ok() {
        assert!(auth_s, "authority signed");
        assert!(auth_key.to_bytes() == stored, "authority is the whirlpool reward authority");
    }
    core::mem::forget(r);
}

/// migrate_repurpose_reward_authority_space is permissionless (no signer in its accounts struct): try_accounts + handler Ok =>
/// no authority-guarded setting of the pool changed (config back-reference, fee rate, protocol fee rate, reward authority,
/// reward mints / vaults).  Pools already migrated (reward_infos[2].extension == 0) are excluded: the handler panics, i.e. the
/// transaction aborts, which Kani would report as a failure.
// @verif prop=C04 tier=thorough timeout=900
#[kani::proof]
#[kani::unwind(40)]
#[kani::stub(alloc::fmt::format, stub_format)]
#[kani::stub(<anchor_lang::error::Error as core::convert::From<anchor_lang::error::ErrorCode>>::from, stub_err_from_anchor_code)]
#[kani::stub(<anchor_lang::error::Error as core::convert::From<::whirlpool::errors::ErrorCode>>::from, stub_err_from_code)]
#[kani::stub(<anchor_lang::prelude::Pubkey as core::fmt::Display>::fmt, stub_pubkey_display)]
#[kani::stub(anchor_lang::error::Error::with_account_name, stub_with_account_name)]
fn c04_migrate_repurpose_reward_authority_space() {
    let mut wp_d = whirlpool_data();
    let before = wp_d;
    kani::assume(k32(&wp_d, WP_REWARD_AUTH + 2 * WP_REWARD_STRIDE) != [0u8; 32]);
    acct!(wp_ai, wp_key, wp_s, &mut wp_d, PID);
    let accounts = [wp_ai];
    let mut slice: &[AccountInfo] = &accounts;
    let mut bumps = <MigrateRepurposeRewardAuthoritySpace as anchor_lang::Bumps>::Bumps::default();
    let mut reallocs = BTreeSet::new();
    let r = <MigrateRepurposeRewardAuthoritySpace as anchor_lang::Accounts<'_, _>>::try_accounts(&PID, &mut slice, &[], &mut bumps, &mut reallocs);
    kani::cover!(r.is_err(), "err reachable");
    if let Ok(mut accs) = r {
        let ctx = Context::new(&PID, &mut accs, &[], bumps);
        let h = ::whirlpool::instructions::migrate_repurpose_reward_authority_space::handler(ctx);
        kani::cover!(h.is_ok(), "ok reachable");
        if h.is_ok() {
            let w = &accs.whirlpool;
            assert!(w.whirlpools_config.to_bytes() == k32(&before, WP_CONFIG), "config unchanged");
            assert!(w.fee_rate.to_le_bytes() == [before[45], before[46]], "fee rate unchanged");
            assert!(w.protocol_fee_rate.to_le_bytes() == [before[47], before[48]], "protocol fee rate unchanged");
            assert!(w.reward_authority().to_bytes() == k32(&before, WP_REWARD_AUTH), "reward authority unchanged");
            let mut i = 0;
            while i < 3 {
                assert!(w.reward_infos[i].mint.to_bytes() == k32(&before, WP_REWARD0_VAULT - 32 + i * WP_REWARD_STRIDE), "reward mint unchanged");
                assert!(w.reward_infos[i].vault.to_bytes() == k32(&before, WP_REWARD0_VAULT + i * WP_REWARD_STRIDE), "reward vault unchanged");
                i += 1;
            }
        }
        core::mem::forget(h);
        core::mem::forget(accs);
    } else {
        core::mem::forget(r);
    }
}

/// initialize_pool_with_adaptive_fee: the predicate of its `initialize_pool_authority` constraint,
/// AdaptiveFeeTier::is_valid_initialize_pool_authority(key) <=> stored authority is unset (permission-less tier) or == key,
/// over all stored authorities and keys.  (The 16-account struct with two `init` PDAs is not run through try_accounts.)
// @verif prop=C04 tier=quick timeout=300
#[kani::proof]
#[kani::unwind(40)]
#[kani::stub(alloc::fmt::format, stub_format)]
#[kani::stub(<anchor_lang::error::Error as core::convert::From<anchor_lang::error::ErrorCode>>::from, stub_err_from_anchor_code)]
#[kani::stub(<anchor_lang::error::Error as core::convert::From<::whirlpool::errors::ErrorCode>>::from, stub_err_from_code)]
#[kani::stub(<anchor_lang::prelude::Pubkey as core::fmt::Display>::fmt, stub_pubkey_display)]
#[kani::stub(anchor_lang::error::Error::with_account_name, stub_with_account_name)]
fn c04_initialize_pool_authority_rule() {
    let stored = any_key();
    let key = any_key();
    let tier = AdaptiveFeeTier {
        whirlpools_config: any_key(),
        fee_tier_index: kani::any(),
        tick_spacing: kani::any(),
        initialize_pool_authority: stored,
        delegated_fee_authority: any_key(),
        default_base_fee_rate: kani::any(),
        filter_period: kani::any(),
        decay_period: kani::any(),
        reduction_factor: kani::any(),
        adaptive_fee_control_factor: kani::any(),
        max_volatility_accumulator: kani::any(),
        tick_group_size: kani::any(),
        major_swap_threshold_ticks: kani::any(),
    };
    let ok = tier.is_valid_initialize_pool_authority(key);
    kani::cover!(ok && stored != Pubkey::default(), "permissioned tier accepted");
    kani::cover!(!ok, "rejected");
    assert!(ok == (stored == Pubkey::default() || stored == key));
}
