//! C04 harnesses (Engine K)
