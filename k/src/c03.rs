//! C03 harnesses (Engine K)
