import sys, os, time
sys.path.insert(0, '/verif')
from vlib import evidence as EV, mirsmt as M
from props import c20
class Ctx(EV.Ctx):
    def mir(self, tag='whirlpool', **kw):
        if not hasattr(self, '_mm'): self._mm = {}
        if tag not in self._mm: self._mm[tag] = M.Mir('/verif/.work/dev.mir' if tag == 'whirlpool' else os.environ.get('SDK_MIR', '/verif/.work/sdk.mir'))
        return self._mm[tag]
ctx = Ctx('C20', 'quick', 0, 8, None)
for n, t in c20.tasks() + c20.thorough_tasks():
    if len(sys.argv) > 1 and sys.argv[1] not in n: continue
    t0 = time.time()
    try: t(ctx)
    except Exception as ex:
        import traceback; traceback.print_exc(); print('TASK FAILED', n)
    print(n, round(time.time() - t0), 's', ctx.extra)
for o in ctx.obligations:
    if o['verdict'] != 'discharged': print(o['verdict'], o['key'], o['time_s'], o['detail'][:330])
print(len(ctx.obligations), 'obligations')
