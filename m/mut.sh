#!/bin/bash
# usage: m/mut.sh <name> <sed-expr> <file-relative-to-repo> -- dev mutation: apply to scratch copy, dump MIR, print path
set -e
W=/var/tmp/wpm
cd $W && git checkout -q -- . 
sed -i "$2" "$W/$3"
git diff --stat | tail -1
cd /verif && VERIF_REPO=$W python3-vt - <<P
import sys; sys.path.insert(0,'/verif')
from vlib import mirsmt as M
p = M.dump_mir('mut_$1')
import shutil; shutil.move(p, '/verif/.work/mut_$1.mir'); print('/verif/.work/mut_$1.mir')
P
