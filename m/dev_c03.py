import sys, os, time
sys.path.insert(0, '/verif')
from vlib import evidence as EV, mirsmt as M
from props import c03
class Ctx(EV.Ctx):
    def mir(self, tag='whirlpool', **kw):
        if not hasattr(self, '_m'): self._m = M.Mir(os.environ.get('DEV_MIR','/verif/.work/dev.mir'))
        return self._m
ctx = Ctx('C03', 'quick', 0, 8, sys.argv[4] if len(sys.argv) > 4 else None)
ei, ab, lm = sys.argv[1] == 'in', sys.argv[2] == 'a2b', sys.argv[3]
tag, task = c03.config_task(ei, ab, lm, 0)
t0 = time.time()
task(ctx)
print(ctx.extra)
for o in ctx.obligations:
    if o['verdict'] != 'discharged': print(o['verdict'], o['key'], o['detail'][:100], (o.get('sample') or {}).get('note'))
print(len(ctx.obligations), 'obligations', sum(o['verdict'] == 'discharged' for o in ctx.obligations), 'discharged', round(time.time() - t0), 's')
