#!/usr/bin/env python3
"""import_seed.py <worktree> <seed-id> <property> <checks,comma> <needs...> — copy a verified seeded change into /verif/seeded/<seed-id>/"""
import sys, os, shutil, json
wt, sid, prop, checks = sys.argv[1:5]
needs = ' '.join(sys.argv[5:])
d = f'/verif/seeded/{sid}'
os.makedirs(d, exist_ok=True)
files = []
for f in ('patch.diff', 'demo.diff', 'notes.md'):
    shutil.copy(os.path.join(wt, '_seed', f), os.path.join(d, f)); files.append(f)
json.dump({'property': prop, 'checks': checks.split(','), 'needs': needs, 'source': 'sub-agent round 2 (saw only the property text and its own scratch worktree)', 'files': files},
          open(os.path.join(d, 'meta.json'), 'w'), indent=1)
print('imported', d)
