import sys, os, time
sys.path.insert(0, '/verif')
from vlib import evidence as EV, mirsmt as M
from props import c02
class Ctx(EV.Ctx):
    def mir(self, tag='whirlpool', **kw):
        if not hasattr(self, '_m'): self._m = M.Mir(os.environ.get('DEV_MIR','/verif/.work/dev.mir'))
        return self._m
ctx = Ctx('C02', 'quick', 0, 8, None)
for n, t in c02.leaf_tasks():
    if sys.argv[1] in n: t(ctx)
for o in ctx.obligations: print(o['verdict'], o['key'], o['time_s'], o['detail'][:150])
