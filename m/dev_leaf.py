import sys, time
sys.path.insert(0, '/verif')
from vlib import term as T, mirsmt as M
from vlib.term import C
mir = M.Mir('/verif/.work/mir/whirlpool.mir')
print('fns', len(mir.fns), 'consts', len(mir.consts), mir.const('FEE_RATE_MUL_VALUE'))
MINP, MAXP = 4295048016, 79226673515401279992447579055
e = M.Engine(mir)
p0 = T.var('p0', MINP, MAXP); p1 = T.var('p1', MINP, MAXP); L = T.var('L', 0, 2**128-1)
W64 = C(2**64)
for up in (True, False):
    t0 = time.time(); obls = []
    lo = T.ite(T.cmp('<=', p0, p1), p0, p1); hi = T.ite(T.cmp('<=', p0, p1), p1, p0)
    N = T.mul(T.mul(L, T.sub(hi, lo)), W64); D = T.mul(hi, lo)
    for path, r in e.run('token_math::try_get_amount_delta_a', [M.I(p0,'u128'), M.I(p1,'u128'), M.I(L,'u128'), M.B(T.TRUE if up else T.FALSE)], M.Path()):
        if isinstance(r, M.Panic): goal = T.FALSE; kind = 'panic'
        elif r.var == 'Err':
            goal = T.cmp('>=', T.mul(L, T.sub(hi, lo)), C(2**192)); kind='Err'
        else:
            inner = r.fields[0]; kind = inner.var
            if inner.var == 'Valid':
                v = inner.fields[0].t
                if up: exact = T.and_(T.cmp('>=', T.mul(v, D), N), T.or_(T.cmp('=', v, C(0)), T.cmp('<', T.mul(T.sub(v, C(1)), D), N)))
                else: exact = T.and_(T.cmp('<=', T.mul(v, D), N), T.cmp('>', T.mul(T.add(v, C(1)), D), N))
                goal = T.and_(T.cmp('<', v, W64), exact)
            else:
                goal = T.cmp('>', N, T.mul(D, T.sub(W64, C(1)))) if up else T.cmp('>=', N, T.mul(D, W64))
        obls.append(M.Obligation(f'delta_a_up{up}_{kind}_{len(obls)}', path.pc, goal))
    M.discharge(obls, 60, 16, '/verif/.work/smt_dev')
    print('round_up', up, [(o.key, o.verdict, round(o.time,2)) for o in obls], round(time.time()-t0,1), e.stats)
