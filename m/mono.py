import re, subprocess, time, sys
src=open('/repo/programs/whirlpool/src/math/tick_math.rs').read()
pos=src[src.index('fn get_sqrt_price_positive_tick'):src.index('fn get_sqrt_price_negative_tick')]
init=[int(x) for x in re.findall(r'\n\s+(\d{20,})\n', pos)][:2]   # odd, even
C=[int(x) for x in re.findall(r'mul_shift_96\(ratio, (\d+)\)', pos)]
assert len(C)==18 and len(init)==2
def chain_const(bits):  # bits: dict k->0/1 for k in 0..j
    r = init[0] if bits[0] else init[1]
    for k in sorted(bits):
        if k==0: continue
        if bits[k]: r = (r*C[k-1])>>96
    return r
def query(j, hints):
    bt={i:1 for i in range(j)}; bt[j]=0
    bu={i:0 for i in range(j)}; bu[j]=1
    a=chain_const(bt); b=chain_const(bu)
    lines=['(set-logic ALL)']
    xs=[]
    ra, rb = str(a), str(b)
    tval = sum((1<<i) for i in range(j))
    tterm=[str(tval)]
    for k in range(j+1,19):
        x=f'x{k}'; xs.append(x); lines.append(f'(declare-const {x} Bool)')
        tterm.append(f'(ite {x} {1<<k} 0)')
        na=f'ra{k}'; nb=f'rb{k}'
        lines.append(f'(declare-const {na} Int)'); lines.append(f'(declare-const {nb} Int)')
        qa=f'qa{k}'; qb=f'qb{k}'
        lines.append(f'(declare-const {qa} Int)'); lines.append(f'(declare-const {qb} Int)')
        W=str(2**96)
        for (q,r) in ((qa,ra),(qb,rb)):
            lines.append(f'(assert (and (<= (* {q} {W}) (* {r} {C[k-1]})) (< (* {r} {C[k-1]}) (* (+ {q} 1) {W}))))')
        lines.append(f'(assert (= {na} (ite {x} {qa} {ra})))')
        lines.append(f'(assert (= {nb} (ite {x} {qb} {rb})))')
        if hints:
            lines.append(f'(assert (>= (- {nb} {na}) (- {rb} {ra})))')
        ra, rb = na, nb
    lines.append(f'(assert (<= (+ {" ".join(tterm)}) 443635))')
    lines.append(f'(declare-const pa Int)(declare-const pb Int)')
    W32=str(2**32)
    lines.append(f'(assert (and (<= (* pa {W32}) {ra}) (< {ra} (* (+ pa 1) {W32}))))')
    lines.append(f'(assert (and (<= (* pb {W32}) {rb}) (< {rb} (* (+ pb 1) {W32}))))')
    lines.append('(assert (not (< pa pb)))')
    lines.append('(check-sat)')
    open(f'mono_{j}.smt2','w').write('\n'.join(lines))
    t0=time.time()
    try:
        out=subprocess.run(['z3-new','-T:120',f'mono_{j}.smt2'],capture_output=True,text=True,timeout=130).stdout.strip()
    except subprocess.TimeoutExpired: out='timeout'
    return out, round(time.time()-t0,2)
for hints in (True,):
    for j in (0, 3, 5, 9):
        print('hints',hints,'j',j, query(j,hints), flush=True)
# the per-stage lemma itself, generic in a<b for one constant
for k in (1, 18):
    txt=f'''(set-logic ALL)
(declare-const a Int)(declare-const b Int)(declare-const qa Int)(declare-const qb Int)
(assert (and (<= 0 a) (< a b) (< b {2**128})))
(assert (and (<= (* qa {2**96}) (* a {C[k-1]})) (< (* a {C[k-1]}) (* (+ qa 1) {2**96}))))
(assert (and (<= (* qb {2**96}) (* b {C[k-1]})) (< (* b {C[k-1]}) (* (+ qb 1) {2**96}))))
(assert (not (>= (- qb qa) (- b a))))
(check-sat)'''
    open('lem.smt2','w').write(txt)
    t0=time.time(); out=subprocess.run(['z3-new','-T:60','lem.smt2'],capture_output=True,text=True).stdout.strip()
    print('lemma const',k,out,round(time.time()-t0,2))
