#!/usr/bin/env python3
"""seed_table.py — markdown table of the round-2/3 seeded changes with the LAST recorded outcome of every (seed, check) pair in seeded/RESULTS.md"""
import json, os, re
S = '/verif/seeded'
last = {}
for line in open(os.path.join(S, 'RESULTS.md')):
    m = re.match(r'\| (\w+) \| (\w+) \| ([^|]*) \| (.*) \|\s*$', line)
    if m and m.group(1) != 'seeded change':
        last[(m.group(1), m.group(2))] = (m.group(3).strip(), m.group(4).strip())
rows = []
for sid in sorted(os.listdir(S)):
    d = os.path.join(S, sid)
    if not os.path.isdir(d) or not re.match(r'C\d\d[bc]$', sid): continue
    meta = json.load(open(os.path.join(d, 'meta.json')))
    title = open(os.path.join(d, 'notes.md')).readline().strip().lstrip('# ').strip()
    outs = []
    for c in meta['checks']:
        o = last.get((sid, c))
        if not o: outs.append(f'{c}: not run'); continue
        verdict = 'caught' if o[0].startswith('CAUGHT') else ('MISSED' if o[0].startswith('MISSED') else o[0])
        hm = re.search(r'obligation ([KM]:[\w:.#-]+)', o[1])
        outs.append(f"{c}: **{verdict}**" + (f" (`{hm.group(1)[:70]}`)" if hm and verdict == 'caught' else ''))
    rows.append(f"| {sid} | {meta['needs'][:230]} | " + '; '.join(outs) + ' |')
print('| seed | what it changes / needs to manifest | check: outcome (first reported obligation) |\n|---|---|---|')
print('\n'.join(rows))
