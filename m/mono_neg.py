import re, subprocess, time
src=open('/repo/programs/whirlpool/src/math/tick_math.rs').read()
neg=src[src.index('fn get_sqrt_price_negative_tick'):src.index('#[cfg(test)]')]
init=[int(x) for x in re.findall(r'\n\s+(\d{19,})\n', neg)][:2]
C=[int(x) for x in re.findall(r'ratio \* (\d+)\) >> 64', neg)]
assert len(C)==18 and len(init)==2, (len(C), init)
W=2**64
def chain_const(bits):
    r = init[0] if bits[0] else init[1]
    for k in sorted(bits):
        if k and bits[k]: r=(r*C[k-1])>>64
    return r
def query(j):
    # m has lowest zero bit j: m = x 0 1^j ; m+1 = x 1 0^j ; need g(m+1) < g(m)
    bm={i:1 for i in range(j)}; bm[j]=0
    bn={i:0 for i in range(j)}; bn[j]=1
    hi=chain_const(bm); lo=chain_const(bn)   # expect lo < hi
    assert lo<hi
    L=['(set-logic ALL)']
    ra, rb = str(lo), str(hi)
    tterm=[str(sum(1<<i for i in range(j)))]
    for k in range(j+1,19):
        x=f'x{k}'; L.append(f'(declare-const {x} Bool)'); tterm.append(f'(ite {x} {1<<k} 0)')
        for v in (f'ra{k}',f'rb{k}',f'qa{k}',f'qb{k}'): L.append(f'(declare-const {v} Int)')
        for q,r in ((f'qa{k}',ra),(f'qb{k}',rb)):
            L.append(f'(assert (and (<= (* {q} {W}) (* {r} {C[k-1]})) (< (* {r} {C[k-1]}) (* (+ {q} 1) {W}))))')
        L.append(f'(assert (= ra{k} (ite {x} qa{k} {ra})))'); L.append(f'(assert (= rb{k} (ite {x} qb{k} {rb})))')
        # hint (generic lemma, proved separately): W*(gap') >= gap*C - W + 1 when multiplied; gap'=gap otherwise
        L.append(f'(assert (ite {x} (>= (* {W} (- rb{k} ra{k})) (+ (- (* (- {rb} {ra}) {C[k-1]}) {W}) 1)) (= (- rb{k} ra{k}) (- {rb} {ra}))))')
        ra, rb = f'ra{k}', f'rb{k}'
    L.append(f'(assert (<= (+ {" ".join(tterm)}) 443635))')
    L.append(f'(assert (not (< {ra} {rb})))'); L.append('(check-sat)')
    open(f'mononeg_{j}.smt2','w').write('\n'.join(L))
    t0=time.time()
    try: out=subprocess.run(['z3-new','-T:120',f'mononeg_{j}.smt2'],capture_output=True,text=True,timeout=130).stdout.strip()
    except subprocess.TimeoutExpired: out='timeout'
    return out, round(time.time()-t0,2)
for j in (18, 12, 9, 5, 0): print('neg j',j,query(j),flush=True)
