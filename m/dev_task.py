import sys, os, time, importlib
sys.path.insert(0, '/verif')
from vlib import evidence as EV, mirsmt as M
class Ctx(EV.Ctx):
    def mir(self, tag='whirlpool', **kw):
        if tag != 'whirlpool': return EV.Ctx.mir(self, tag, **kw)
        if not hasattr(self, '_m'): self._m = M.Mir(os.environ.get('DEV_MIR','/verif/.work/dev.mir'))
        return self._m
mod = importlib.import_module('props.' + sys.argv[1])
ctx = Ctx(sys.argv[1].upper(), os.environ.get('TIER','quick'), 0, 8, None)
t0 = time.time()
getattr(mod, sys.argv[2])(ctx) if len(sys.argv) == 3 else getattr(mod, sys.argv[2])(*[eval(a) for a in sys.argv[3:]])(ctx)
print(ctx.extra)
bad = 0
for o in ctx.obligations:
    if o['verdict'] != 'discharged' or os.environ.get('ALL'): print(o['verdict'], o['key'], o['time_s'], o['detail'][:300]); bad += o['verdict'] != 'discharged'
print(len(ctx.obligations), 'obligations', bad, 'not discharged', round(time.time() - t0), 's')
