import sys, os, time
sys.path.insert(0, '/verif')
from vlib import evidence as EV, mirsmt as M
from props import c09
class Ctx(EV.Ctx):
    def mir(self, tag='whirlpool', **kw):
        if not hasattr(self, '_m'): self._m = M.Mir(os.environ.get('DEV_MIR','/verif/.work/dev.mir'))
        return self._m
ctx = Ctx('C09', 'quick', 0, 8, None)
t0 = time.time()
if sys.argv[1] == 'end': c09.endpoints_task(ctx)
else: c09.mono_task(int(sys.argv[1]), [int(x) for x in sys.argv[2].split(',')])(ctx)
print(ctx.extra)
for o in ctx.obligations:
    print(o['verdict'], o['key'], o['time_s'], o['detail'][:200])
print(round(time.time() - t0), 's')
