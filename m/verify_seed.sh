#!/bin/bash
# usage: m/verify_seed.sh <worktree> <label> [demo test filter]
# confirms in the scratch worktree: (1) demo passes on the pristine tree, (2) demo fails with the patch, (3) the existing suite passes with the patch only
W=$1; L=$2; F=${3:-}
cd $W || exit 1
export CARGO_NET_OFFLINE=true
git checkout -q -- . 2>/dev/null
git apply _seed/demo.diff || { echo "$L demo does not apply"; exit 1; }
names=$(git diff -U0 | grep -E '^\+\s*(pub )?(async )?fn \w+' | sed -E 's/.*fn (\w+).*/\1/' | sort -u | tr '\n' ' ')
mods=$(git diff -U0 | grep -E '^\+\s*mod \w+' | sed -E 's/.*mod (\w+).*/\1/' | head -1)
filt=${F:-$mods}
a=$(cargo test -j 8 --offline -p whirlpool --lib $filt 2>&1 | grep "test result" | head -1)
git apply _seed/patch.diff || { echo "$L patch does not apply on top of demo"; exit 1; }
b=$(cargo test -j 8 --offline -p whirlpool --lib $filt 2>&1 | grep "test result" | head -1)
git checkout -q -- . ; git apply _seed/patch.diff
c=$(cargo test -j 8 --workspace --no-fail-fast --offline 2>&1 | grep "test result" | head -1)
git checkout -q -- .
echo "$L | filter=$filt | demo on pristine: $a | demo with patch: $b | suite with patch only: $c"
