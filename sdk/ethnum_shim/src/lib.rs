//! Minimal stand-in for `ethnum::U256` (the real crate cannot be fetched in this sandbox).
//! Semantics follow the documented ethnum API, which mirrors the std integer API:
//! `checked_mul` is None on 256-bit overflow; `checked_shl(n)` is None iff n >= 256 (it does NOT detect lost high bits);
//! `+ - *` wrap in release / panic in debug like primitives (here: wrapping), `/ %` panic on zero, `>> <<` by u32.
//! Engine M models every method below by its integer meaning; the bodies are only used for native replay.
#![allow(clippy::all)]
use core::cmp::Ordering;
use core::ops::*;

#[derive(Clone, Copy, PartialEq, Eq, Hash, Debug, Default)]
#[allow(non_camel_case_types)]
pub struct U256(pub [u128; 2]); // little endian: [lo, hi]

pub type u256 = U256;

impl U256 {
    pub const MIN: U256 = U256([0, 0]);
    pub const ZERO: U256 = U256([0, 0]);
    pub const ONE: U256 = U256([1, 0]);
    pub const MAX: U256 = U256([u128::MAX, u128::MAX]);
    pub const BITS: u32 = 256;
    pub const fn new(v: u128) -> Self { U256([v, 0]) }
    pub const fn from_words(hi: u128, lo: u128) -> Self { U256([lo, hi]) }
    pub const fn into_words(self) -> (u128, u128) { (self.0[1], self.0[0]) }
    pub const fn as_u128(self) -> u128 { self.0[0] }
    pub const fn as_u64(self) -> u64 { self.0[0] as u64 }
    pub const fn as_u32(self) -> u32 { self.0[0] as u32 }
    pub const fn as_u16(self) -> u16 { self.0[0] as u16 }
    pub const fn as_u8(self) -> u8 { self.0[0] as u8 }
    pub fn leading_zeros(self) -> u32 { if self.0[1] != 0 { self.0[1].leading_zeros() } else { 128 + self.0[0].leading_zeros() } }
    fn limbs(self) -> [u64; 4] { [self.0[0] as u64, (self.0[0] >> 64) as u64, self.0[1] as u64, (self.0[1] >> 64) as u64] }
    fn from_limbs(l: [u64; 4]) -> Self { U256([(l[0] as u128) | ((l[1] as u128) << 64), (l[2] as u128) | ((l[3] as u128) << 64)]) }
    pub fn overflowing_add(self, o: Self) -> (Self, bool) {
        let (lo, c) = self.0[0].overflowing_add(o.0[0]);
        let (hi, c1) = self.0[1].overflowing_add(o.0[1]);
        let (hi, c2) = hi.overflowing_add(c as u128);
        (U256([lo, hi]), c1 || c2)
    }
    pub fn overflowing_sub(self, o: Self) -> (Self, bool) {
        let (lo, b) = self.0[0].overflowing_sub(o.0[0]);
        let (hi, b1) = self.0[1].overflowing_sub(o.0[1]);
        let (hi, b2) = hi.overflowing_sub(b as u128);
        (U256([lo, hi]), b1 || b2)
    }
    pub fn overflowing_mul(self, o: Self) -> (Self, bool) {
        let a = self.limbs(); let b = o.limbs();
        let mut r = [0u64; 8];
        for i in 0..4 {
            let mut carry: u128 = 0;
            for j in 0..4 {
                let cur = r[i + j] as u128 + (a[i] as u128) * (b[j] as u128) + carry;
                r[i + j] = cur as u64; carry = cur >> 64;
            }
            r[i + 4] = carry as u64;
        }
        (Self::from_limbs([r[0], r[1], r[2], r[3]]), r[4] != 0 || r[5] != 0 || r[6] != 0 || r[7] != 0)
    }
    pub fn checked_add(self, o: Self) -> Option<Self> { let (v, f) = self.overflowing_add(o); if f { None } else { Some(v) } }
    pub fn checked_sub(self, o: Self) -> Option<Self> { let (v, f) = self.overflowing_sub(o); if f { None } else { Some(v) } }
    pub fn checked_mul(self, o: Self) -> Option<Self> { let (v, f) = self.overflowing_mul(o); if f { None } else { Some(v) } }
    pub fn wrapping_shl(self, n: u32) -> Self {
        let n = n % 256;
        if n == 0 { self } else if n >= 128 { U256([0, self.0[0] << (n - 128)]) } else { U256([self.0[0] << n, (self.0[1] << n) | (self.0[0] >> (128 - n))]) }
    }
    pub fn wrapping_shr(self, n: u32) -> Self {
        let n = n % 256;
        if n == 0 { self } else if n >= 128 { U256([self.0[1] >> (n - 128), 0]) } else { U256([(self.0[0] >> n) | (self.0[1] << (128 - n)), self.0[1] >> n]) }
    }
    /// like the primitive integers (and like ethnum): None iff the shift amount is >= 256; high bits shifted out are lost silently
    pub fn checked_shl(self, n: u32) -> Option<Self> { if n >= 256 { None } else { Some(self.wrapping_shl(n)) } }
    pub fn checked_shr(self, n: u32) -> Option<Self> { if n >= 256 { None } else { Some(self.wrapping_shr(n)) } }
    fn bit(self, i: u32) -> bool { if i >= 128 { (self.0[1] >> (i - 128)) & 1 == 1 } else { (self.0[0] >> i) & 1 == 1 } }
    pub fn div_rem(self, d: Self) -> (Self, Self) {
        assert!(d != U256::ZERO, "attempt to divide by zero");
        let mut q = U256::ZERO; let mut r = U256::ZERO;
        let mut i = 256;
        while i > 0 {
            i -= 1;
            r = r.wrapping_shl(1);
            if self.bit(i) { r.0[0] |= 1; }
            if r >= d { r = r.overflowing_sub(d).0; if i >= 128 { q.0[1] |= 1 << (i - 128); } else { q.0[0] |= 1 << i; } }
        }
        (q, r)
    }
    pub fn checked_div(self, d: Self) -> Option<Self> { if d == U256::ZERO { None } else { Some(self.div_rem(d).0) } }
}
impl PartialOrd for U256 { fn partial_cmp(&self, o: &Self) -> Option<Ordering> { Some(self.cmp(o)) } }
impl Ord for U256 { fn cmp(&self, o: &Self) -> Ordering { self.0[1].cmp(&o.0[1]).then(self.0[0].cmp(&o.0[0])) } }
macro_rules! from_prim { ($($t:ty),*) => { $(
    impl From<$t> for U256 { fn from(v: $t) -> Self { U256([v as u128, 0]) } }
)* } }
from_prim!(u8, u16, u32, u64, u128, usize);
impl From<bool> for U256 { fn from(v: bool) -> Self { U256([v as u128, 0]) } }
// like ethnum: mixed operations only with u128 (so that an integer literal on the right-hand side infers as u128)
impl PartialEq<u128> for U256 { fn eq(&self, o: &u128) -> bool { *self == U256::from(*o) } }
impl PartialOrd<u128> for U256 { fn partial_cmp(&self, o: &u128) -> Option<Ordering> { Some(self.cmp(&U256::from(*o))) } }
impl PartialEq<U256> for u128 { fn eq(&self, o: &U256) -> bool { U256::from(*self) == *o } }
impl PartialOrd<U256> for u128 { fn partial_cmp(&self, o: &U256) -> Option<Ordering> { Some(U256::from(*self).cmp(o)) } }
impl Add<u128> for U256 { type Output = U256; fn add(self, o: u128) -> U256 { self + U256::from(o) } }
impl Sub<u128> for U256 { type Output = U256; fn sub(self, o: u128) -> U256 { self - U256::from(o) } }
impl Mul<u128> for U256 { type Output = U256; fn mul(self, o: u128) -> U256 { self * U256::from(o) } }
impl Div<u128> for U256 { type Output = U256; fn div(self, o: u128) -> U256 { self / U256::from(o) } }
impl Rem<u128> for U256 { type Output = U256; fn rem(self, o: u128) -> U256 { self % U256::from(o) } }
impl Add for U256 { type Output = U256; fn add(self, o: U256) -> U256 { self.overflowing_add(o).0 } }
impl Sub for U256 { type Output = U256; fn sub(self, o: U256) -> U256 { self.overflowing_sub(o).0 } }
impl Mul for U256 { type Output = U256; fn mul(self, o: U256) -> U256 { self.overflowing_mul(o).0 } }
impl Div for U256 { type Output = U256; fn div(self, o: U256) -> U256 { self.div_rem(o).0 } }
impl Rem for U256 { type Output = U256; fn rem(self, o: U256) -> U256 { self.div_rem(o).1 } }
impl AddAssign for U256 { fn add_assign(&mut self, o: U256) { *self = *self + o; } }
impl SubAssign for U256 { fn sub_assign(&mut self, o: U256) { *self = *self - o; } }
impl BitAnd for U256 { type Output = U256; fn bitand(self, o: U256) -> U256 { U256([self.0[0] & o.0[0], self.0[1] & o.0[1]]) } }
impl BitOr for U256 { type Output = U256; fn bitor(self, o: U256) -> U256 { U256([self.0[0] | o.0[0], self.0[1] | o.0[1]]) } }
macro_rules! shifts { ($($t:ty),*) => { $(
    impl Shl<$t> for U256 { type Output = U256; fn shl(self, n: $t) -> U256 { self.wrapping_shl(n as u32) } }
    impl Shr<$t> for U256 { type Output = U256; fn shr(self, n: $t) -> U256 { self.wrapping_shr(n as u32) } }
)* } }
shifts!(u8, u16, u32, u64, usize, i32);
#[derive(Debug, Clone, Copy, PartialEq, Eq)]
pub struct TryFromIntError;
macro_rules! try_into_prim { ($($t:ty),*) => { $(
    impl TryFrom<U256> for $t { type Error = TryFromIntError; fn try_from(v: U256) -> Result<$t, TryFromIntError> {
        if v.0[1] != 0 || v.0[0] > <$t>::MAX as u128 { Err(TryFromIntError) } else { Ok(v.0[0] as $t) } } }
)* } }
try_into_prim!(u8, u16, u32, u64, u128, usize);
impl core::fmt::Display for U256 { fn fmt(&self, f: &mut core::fmt::Formatter<'_>) -> core::fmt::Result { write!(f, "{}:{}", self.0[1], self.0[0]) } }
