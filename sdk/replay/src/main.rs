//! native replay driver for the SDK mirror (real SDK sources + ethnum shim): prints `Ok <value>` or `Err:<message>`
use orca_whirlpools_core::*;
fn u(s: &str) -> u128 { s.parse::<u128>().expect("u128") }
fn b(s: &str) -> bool { s == "1" }
fn show<T: std::fmt::Display, E: std::fmt::Debug>(r: Result<T, E>) -> String { match r { Ok(v) => format!("Ok {}", v), Err(e) => format!("Err:{:?}", e) } }
fn main() {
    let a: Vec<String> = std::env::args().skip(1).collect();
    let x: Vec<&str> = a[1..].iter().map(|s| s.as_str()).collect();
    let out = std::panic::catch_unwind(|| match a[0].as_str() {
        "try_get_amount_delta_a" => show(try_get_amount_delta_a(u(x[0]), u(x[1]), u(x[2]), b(x[3]))),
        "try_get_amount_delta_b" => show(try_get_amount_delta_b(u(x[0]), u(x[1]), u(x[2]), b(x[3]))),
        "try_get_next_sqrt_price_from_a" => show(try_get_next_sqrt_price_from_a(u(x[0]), u(x[1]), u(x[2]) as u64, b(x[3]))),
        "try_get_next_sqrt_price_from_b" => show(try_get_next_sqrt_price_from_b(u(x[0]), u(x[1]), u(x[2]) as u64, b(x[3]))),
        "tick_index_to_sqrt_price" => format!("Ok {}", tick_index_to_sqrt_price(x[0].parse::<i32>().unwrap())),
        "sqrt_price_to_tick_index" => format!("Ok {}", sqrt_price_to_tick_index(u(x[0]))),
        _ => "UnknownFunction".to_string(),
    });
    match out { Ok(s) => println!("{}", s), Err(_) => println!("Panic") }
}
