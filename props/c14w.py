"""Adaptive-fee wiring of the swap loop (Engine M): how swap_manager::swap drives the FeeRateManager, decided per loop segment from ARBITRARY loop states.

The Floyd verification of swap() (props/c03.py) runs with the static manager, for which `get_total_fee_rate()` is the pool's fee rate and the
inner loop runs once: a slip such as passing `fee_rate` instead of `total_fee_rate` to compute_swap is invisible there.  Here the manager is an
ABSTRACT object: every FeeRateManager method is a recording summary returning arbitrary values of its type (only the documented range of the
rate, C14), the loop state at the inner header is havocked (no invariant is needed: the obligations speak about ONE iteration), and the obligations
are statements about the recorded calls of that iteration:

  A1  update_volatility_accumulator() is the first manager call of the iteration and its error aborts the swap
  A2  compute_swap receives the rate returned by get_total_fee_rate() of THIS iteration (called after A1), the bounded target returned by
      get_bounded_sqrt_price_target(sqrt_price_target, curr_liquidity) of this iteration, the current liquidity / price / remaining amount
  A3  after the step: advance_tick_group() iff the target was not skipped, else advance_tick_group_after_skip(new price, next tick price, next tick index)
  A4  exactly one of the two advance calls per iteration, after compute_swap, with the price compute_swap returned
  A5  the inner loop continues iff amount_remaining != 0 and the new price != sqrt_price_target (the un-bounded target)
  A6  on the Ok exit: update_major_swap_timestamp(timestamp, pool price before the swap, final price) is called once, before
      get_next_adaptive_fee_info(), whose result is what the PostSwapUpdate carries
  A0  construction: FeeRateManager::new(a_to_b, pool tick_current_index, timestamp, pool fee_rate, the caller's adaptive_fee_info)
"""
import re, os, time
from vlib import term as T, mirsmt as M
from vlib.term import C, TRUE, FALSE
from vlib.mirsmt import I, B, S, E, Path, Panic, Opaque, Cut
from props import c03

U128 = (1 << 128) - 1


def install_manager(w):
    e = w.e
    cnt = [0]

    def rec(name, ret):
        def f(e_, callee, args, path):
            cnt[0] += 1
            vals = [M_snapshot(e_, a) for a in args[1:]] if name != 'new' else [M_snapshot(e_, a) for a in args]
            yield from ret(e_, path.with_trace(('event', 'mgr', name, vals, cnt[0])), cnt[0])
        return f

    def ret_new(e_, p, n):
        ok = T.bvar(f'mgr_new_ok{n}')
        p1 = e_.fork(p, ok)
        if p1: yield p1, E('Ok', [Opaque('mgr')])
        p2 = e_.fork(p, T.not_(ok))
        if p2: yield p2, E('Err', [E('MgrNewError')])

    def ret_result_unit(tag):
        def r(e_, p, n):
            ok = T.bvar(f'{tag}_ok{n}')
            p1 = e_.fork(p, ok)
            if p1: yield p1.with_trace(('event', 'mgr_ret', tag, 'ok', n)), E('Ok', [M.Unit()])
            p2 = e_.fork(p, T.not_(ok))
            if p2: yield p2.with_trace(('event', 'mgr_ret', tag, 'err', n)), E('Err', [E(tag + '_error')])
        return r

    def ret_rate(e_, p, n):
        r = T.fresh('total_rate', 0, 100000)           # C14: the total rate never exceeds FEE_RATE_HARD_LIMIT
        yield p.with_trace(('event', 'mgr_ret', 'rate', r, n)), I(r, 'u32')

    def ret_bounded(e_, p, n):
        bt = T.fresh('bounded_target', 0, U128); sk = T.bvar(f'skipped{n}')
        yield p.with_trace(('event', 'mgr_ret', 'bounded', (bt, sk), n)), S([I(bt, 'u128'), B(sk)])

    def ret_unit(e_, p, n):
        yield p, M.Unit()

    def ret_info(e_, p, n):
        yield p, Opaque(f'next_adaptive_fee_info#{n}')

    pre = r'fee_rate_manager::(<impl at [^>]*>|FeeRateManager)::'
    for name, ret in (('new', ret_new), ('update_volatility_accumulator', ret_result_unit('uva')), ('get_total_fee_rate', ret_rate),
                      ('get_bounded_sqrt_price_target', ret_bounded), ('advance_tick_group_after_skip', ret_result_unit('skipadv')),
                      ('advance_tick_group', ret_unit), ('update_major_swap_timestamp', ret_result_unit('major')), ('get_next_adaptive_fee_info', ret_info)):
        e.summaries.insert(0, (re.compile(r'(^|::)FeeRateManager::' + name + r'$|' + pre + name + r'$'), rec(name, ret)))


def M_snapshot(e, v):
    from vlib.handler import snapshot
    return snapshot(e, v)


def term_of(v):
    return v.t if isinstance(v, (I, B)) else v


def same(a, b):
    """goal: two recorded values are the same (terms: equality; opaque: same tag)"""
    if isinstance(a, (I,)) and isinstance(b, (I,)): return T.cmp('=', a.t, b.t)
    if isinstance(a, B) and isinstance(b, B): return T.beq(a.t, b.t)
    if isinstance(a, tuple) and isinstance(b, tuple): return T.cmp('=', a, b)
    if isinstance(a, I) and isinstance(b, tuple): return T.cmp('=', a.t, b)
    if isinstance(a, tuple) and isinstance(b, I): return T.cmp('=', a, b.t)
    return TRUE if repr(a) == repr(b) else FALSE


def wiring_task(exact_in, a_to_b):
    tag = f"adaptive:{'in' if exact_in else 'out'}:{'a2b' if a_to_b else 'b2a'}"

    def task(ctx):
        w = c03.World(ctx, exact_in, a_to_b, 'explicit')
        afi = Opaque('caller_adaptive_fee_info')
        w.args[7] = E('Some', [afi])
        install_manager(w)
        e = w.e
        e.cuts = {(w.fn.name, w.h_out), (w.fn.name, w.h_in)}
        obls = []

        def ob(key, pc, goal, note=''):
            o = M.Obligation(f'swap:{tag}:{key}', pc, goal, note=note, hints=w.pf.side); o.replay = None; o.nontrivial = True
            obls.append(o)

        def mgr_calls(p):
            return [ev for ev in p.trace if ev[1] == 'mgr']

        # ---------------- entry -> first inner header: A0
        inner = None
        n_entry = 0
        work = list(e.run(w.fn, w.args, Path(list(w.pre))))
        while work:
            p, r = work.pop()
            if isinstance(r, Cut) and r.bb == w.h_out:
                work += list(e.run_from(r.frame, r.bb, p)); continue
            if isinstance(r, Cut) and r.bb == w.h_in:
                n_entry += 1
                inner = inner or r
                calls = mgr_calls(p)
                g = FALSE
                if len(calls) == 1 and calls[0][2] == 'new':
                    a = calls[0][3]
                    g = T.and_(same(a[0], B(TRUE if a_to_b else FALSE)), same(a[1], w.wp.get('tick_current_index')), same(a[2], I(w.timestamp, 'u64')),
                               same(a[3], w.wp.get('fee_rate')), TRUE if repr(a[4]) == repr(w.args[7]) or (isinstance(a[4], E) and a[4].var == 'Some' and repr(a[4].fields[0]) == repr(afi)) else FALSE)
                ob(f'entry{n_entry}:A0_manager_constructed_from_pool_and_caller_info', p.pc, g,
                   'FeeRateManager::new(a_to_b, pool tick_current_index, timestamp, pool fee_rate, caller adaptive_fee_info) is the only manager call before the loop')
        if inner is None:
            raise RuntimeError('inner loop header not reached')

        # ---------------- one inner iteration from an arbitrary state
        fr_h = w.havoc_frame(inner.frame)
        pre_vals = {n: w.loc(fr_h, n) for n in ('amount_remaining', 'curr_liquidity', 'curr_sqrt_price', 'sqrt_price_target', 'next_tick_sqrt_price', 'next_tick_index')}
        n_back = n_ok = n_iter = 0
        outs = list(e.run_from(fr_h, w.h_in, Path(list(w.pre))))
        exits = []
        for i, (p, r) in enumerate(outs):
            calls = mgr_calls(p)
            names = [c[2] for c in calls]
            steps = [ev[2] for ev in p.trace if ev[1] == 'step']
            rets = {(ev[2], ev[4]): ev[3] for ev in p.trace if ev[1] == 'mgr_ret'}
            if isinstance(r, Panic):
                ob(f'iter{i}:no_panic', p.pc, FALSE, r.msg); continue
            n_iter += 1
            # A1
            ob(f'iter{i}:A1_update_volatility_accumulator_first', p.pc, TRUE if names and names[0] == 'update_volatility_accumulator' else FALSE,
               'every inner iteration starts with update_volatility_accumulator()')
            uva_n = calls[0][4] if calls else None
            if rets.get(('uva', uva_n)) == 'err':
                ob(f'iter{i}:A1_error_aborts', p.pc, TRUE if (isinstance(r, E) and r.var == 'Err' and len(names) == 1 and not steps) else FALSE,
                   'an error of update_volatility_accumulator aborts the swap before any step')
                continue
            if not steps:
                # compute_swap not reached: only legitimate if a callee failed before it (none exists between the manager calls and compute_swap) or compute_swap failed
                failed = any(ev[1] == 'step_err' for ev in p.trace)
                ob(f'iter{i}:A2_step_follows_manager_calls', p.pc, TRUE if failed and names[:3] == ['update_volatility_accumulator', 'get_total_fee_rate', 'get_bounded_sqrt_price_target'] else FALSE,
                   'compute_swap is attempted after [update_volatility_accumulator, get_total_fee_rate, get_bounded_sqrt_price_target]')
                continue
            st = steps[0]
            ok_order = names[:3] == ['update_volatility_accumulator', 'get_total_fee_rate', 'get_bounded_sqrt_price_target'] and len(steps) == 1
            g2 = FALSE
            if ok_order:
                rate = rets[('rate', calls[1][4])]; bt, sk = rets[('bounded', calls[2][4])]
                ba = calls[2][3]
                g2 = T.and_(T.cmp('=', st['fee_rate'], rate), T.cmp('=', st['tgt'], bt), T.cmp('=', st['liq'], pre_vals['curr_liquidity'].t),
                            T.cmp('=', st['cur'], pre_vals['curr_sqrt_price'].t), T.cmp('=', st['rem'], pre_vals['amount_remaining'].t),
                            same(ba[0], pre_vals['sqrt_price_target']), same(ba[1], pre_vals['curr_liquidity']))
            ob(f'iter{i}:A2_step_uses_this_iterations_rate_and_bounded_target', p.pc, g2,
               'compute_swap(amount_remaining, get_total_fee_rate(), curr_liquidity, curr_sqrt_price, bounded target of (sqrt_price_target, curr_liquidity), ..)')
            if not ok_order: continue
            completed = isinstance(r, Cut) or (isinstance(r, E) and r.var == 'Ok')
            adv = [c for c in calls[3:] if c[2] in ('advance_tick_group', 'advance_tick_group_after_skip')]
            if completed:
                g3 = FALSE
                if len(adv) == 1:
                    if adv[0][2] == 'advance_tick_group':
                        g3 = T.not_(sk)
                    else:
                        a = adv[0][3]
                        g3 = T.and_(sk, same(a[0], st['nxt']), same(a[1], pre_vals['next_tick_sqrt_price']), same(a[2], pre_vals['next_tick_index']))
                ob(f'iter{i}:A3_A4_one_advance_call_matching_the_skip_flag', p.pc, g3,
                   'advance_tick_group() iff not skipped, else advance_tick_group_after_skip(price returned by compute_swap, next tick price, next tick index); exactly one per iteration')
            if isinstance(r, Cut):
                n_back += 1
                fr1 = r.frame
                rem1, price1 = w.t(fr1, 'amount_remaining'), w.t(fr1, 'curr_sqrt_price')
                cont = T.and_(T.not_(T.cmp('=', rem1, C(0))), T.not_(T.cmp('=', price1, pre_vals['sqrt_price_target'].t)))
                if r.bb == w.h_in:
                    ob(f'iter{i}:A5_inner_loop_continues_only_short_of_the_target', p.pc, T.and_(cont, T.cmp('=', price1, st['nxt'])),
                       'the inner loop continues iff amount_remaining != 0 and the new price != sqrt_price_target')
                    for n in ('sqrt_price_target', 'next_tick_sqrt_price', 'next_tick_index'):
                        ob(f'iter{i}:A5_{n}_unchanged', p.pc, same(w.loc(fr1, n), pre_vals[n]), 'targets of the search step are not modified by an inner iteration')
                else:
                    ob(f'iter{i}:A5_inner_loop_ends_at_target_or_exhaustion', p.pc, T.and_(T.not_(cont), T.cmp('=', price1, st['nxt'])),
                       'the inner loop ends iff amount_remaining == 0 or the new price == sqrt_price_target')
                    exits.append((p, r))
        # ---------------- outer header (arbitrary state) -> Ok exit: A6
        fr_o = None
        for p, r in exits:
            fr_o = r.frame; break
        if fr_o is not None:
            fr_x = w.havoc_frame(fr_o)
            price_x = w.t(fr_x, 'curr_sqrt_price')
            for i, (p, r) in enumerate(e.run_from(fr_x, w.h_out, Path(list(w.pre)))):
                if not (isinstance(r, E) and r.var == 'Ok'): continue
                calls = mgr_calls(p)
                names = [c[2] for c in calls]
                n_ok += 1
                g6 = FALSE
                if names == ['update_major_swap_timestamp', 'get_next_adaptive_fee_info']:
                    a = calls[0][3]
                    u = r.fields[0]
                    if isinstance(u, M.Boxed): u = u.val
                    info = u.get('next_adaptive_fee_info')
                    g6 = T.and_(same(a[0], I(w.timestamp, 'u64')), same(a[1], w.wp.get('sqrt_price')), same(a[2], price_x),
                                TRUE if repr(info) == repr(Opaque(f'next_adaptive_fee_info#{calls[1][4]}')) else FALSE)
                ob(f'exit{i}:A6_major_swap_timestamp_then_next_info', p.pc, g6,
                   'update_major_swap_timestamp(timestamp, pool price before the swap, final price) then get_next_adaptive_fee_info() whose result is returned')
        ctx.extra['adaptive_wiring'] = dict(entry_paths=n_entry, iteration_paths=n_iter, back_edges=n_back, ok_exits=n_ok)
        ctx.functions.update(e.executed)
        ctx.discharge(obls, cap=ctx.cap(60, 300))
        if n_back == 0 or n_ok == 0 or n_entry == 0:
            ctx.add(f'M:swap:{tag}:vacuity', 'M', 'fault', 0, f'entry={n_entry} back edges={n_back} ok exits={n_ok}', False)
    return tag, task


def tasks():
    return [wiring_task(ei, ab) for ei in (True, False) for ab in (True, False)]
