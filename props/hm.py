"""Handler-mode (Engine M) tasks for payout / emission instructions: collect_fees(_v2), collect_reward(_v2), set_reward_emissions(_v2).
Shared by C01 (O8: handlers pay exactly the owed amounts), C07, C11."""
import re
from vlib import term as T, mirsmt as M, handler as H
from vlib.term import C, TRUE, FALSE
from vlib.mirsmt import I, B, S, E, Path, Panic, Opaque
from props import c17

U64 = 2**64 - 1
REC = c17.RECORD + [r'transfer_from_vault_to_owner(_v2)?$', r'verify_position_authority(_interface)?$', r'next_whirlpool_reward_infos$', r'calculate_transfer_fee_\w+$']


def setup(ctx, struct_name):
    T.reset()
    e = M.Engine(ctx.mir(), prune_ms=3000, max_steps=40000)
    H.install(e, record=REC)
    ctxv, accts, fr0 = c17.build_ctx(e, struct_name, e.havoc)
    return e, ctxv, accts


def transfers(e, p):
    out = []
    for ev in c17.calls(p, r'transfer_from_vault_to_owner(_v2)?$'):
        xs = [H.snapshot(e, x) for x in ev[2]]
        ints = [x for x in xs if isinstance(x, I) and x.ty == 'u64']
        accs = [x.name for x in ev[2] if isinstance(H.snapshot(e, x), H.Acct) or isinstance(x, H.Acct)]
        accs = []
        for x in ev[2]:
            y = x
            while isinstance(y, M.Ref):
                try: y = e.read_place(y.frame, y.place)
                except Exception: break
            while isinstance(y, M.Boxed): y = y.val
            if isinstance(y, H.Acct): accs.append(y.name)
        out.append((ints[-1].t if ints else None, accs))
    return out


def collect_fees_task(v2):
    def task(ctx):
        fn = 'instructions::v2::collect_fees::handler' if v2 else 'instructions::collect_fees::handler'
        st = 'CollectFeesV2' if v2 else 'CollectFees'
        tag = 'collect_fees_v2' if v2 else 'collect_fees'
        e, ctxv, accts = setup(ctx, st)
        pos = c17.acct(accts, 'position')
        owed_a, owed_b = pos.data.get('fee_owed_a').t, pos.data.get('fee_owed_b').t
        args = [ctxv] + ([Opaque('remaining_accounts_info')] if v2 else [])
        obls = []; n_ok = 0
        for i, (p, r) in enumerate(e.run(fn, args, Path())):
            if isinstance(r, Panic):
                o = M.Obligation(f'{tag}:path{i}:no_panic', p.pc, FALSE, note=r.msg); o.replay = None; obls.append(o); continue
            if not (isinstance(r, E) and r.var == 'Ok'): continue
            n_ok += 1
            auth = c17.calls(p, r'verify_position_authority(_interface)?$')
            tr = transfers(e, p)
            order = [ev[1] for ev in p.trace if ev[0] == 'call' and re.search(r'verify_position_authority|transfer_from_vault_to_owner', ev[1])]
            o = M.Obligation(f'{tag}:path{i}:authority_verified_before_any_payout', p.pc, TRUE if (auth and re.search('verify_position_authority', order[0])) else FALSE); o.replay = None; obls.append(o)
            ok = len(tr) == 2 and all(a is not None for a, _ in tr)
            o = M.Obligation(f'{tag}:path{i}:two_payouts', p.pc, TRUE if ok else FALSE, note=str([x[1] for x in tr])); o.replay = None; obls.append(o)
            if not ok: continue
            o = M.Obligation(f'{tag}:path{i}:pays_exactly_fee_owed', p.pc, T.and_(T.cmp('=', tr[0][0], owed_a), T.cmp('=', tr[1][0], owed_b)),
                             note='transfer amounts are the position\'s fee_owed_a / fee_owed_b of the pre-state'); o.replay = None; obls.append(o)
            va = 'token_vault_a' in tr[0][1] and 'token_owner_account_a' in tr[0][1]; vb = 'token_vault_b' in tr[1][1] and 'token_owner_account_b' in tr[1][1]
            o = M.Obligation(f'{tag}:path{i}:from_pool_vaults_to_owner_accounts', p.pc, TRUE if (va and vb) else FALSE, note=str([x[1] for x in tr])); o.replay = None; obls.append(o)
        if n_ok == 1:
            post = pos.data
            o = M.Obligation(f'{tag}:fee_owed_reset_to_zero', [], T.and_(T.cmp('=', post.get('fee_owed_a').t, C(0)), T.cmp('=', post.get('fee_owed_b').t, C(0)))); o.replay = None; obls.append(o)
        ctx.functions.update(e.executed)
        ctx.add(f'M:{tag}:vacuity', 'M', 'discharged' if n_ok else 'fault', 0, f'{n_ok} successful paths', False)
        ctx.discharge(obls)
    return task


def collect_reward_task(v2, idx):
    def task(ctx):
        fn = 'instructions::v2::collect_reward::handler' if v2 else 'instructions::collect_reward::handler'
        st = 'CollectRewardV2' if v2 else 'CollectReward'
        tag = f"collect_reward{'_v2' if v2 else ''}:index{idx}"
        e, ctxv, accts = setup(ctx, st)
        pos = c17.acct(accts, 'position')
        owed = pos.data.get('reward_infos').items[idx].get('amount_owed').t if idx < 3 else None
        vault_amt = c17.acct(accts, 'reward_vault').data.get('amount').t
        args = [ctxv, I(C(idx), 'u8')] + ([Opaque('remaining_accounts_info')] if v2 else [])
        obls = []; n_ok = 0
        for i, (p, r) in enumerate(e.run(fn, args, Path())):
            if isinstance(r, Panic):
                if idx < 3:
                    o = M.Obligation(f'{tag}:path{i}:no_panic', p.pc, FALSE, note=r.msg); o.replay = None; obls.append(o)
                continue
            if not (isinstance(r, E) and r.var == 'Ok'): continue
            n_ok += 1
            if idx >= 3:
                o = M.Obligation(f'{tag}:path{i}:invalid_index_rejected', p.pc, FALSE, note='reward index >= 3 must not succeed'); o.replay = None; obls.append(o); continue
            tr = transfers(e, p)
            ok = len(tr) == 1 and tr[0][0] is not None
            o = M.Obligation(f'{tag}:path{i}:one_payout', p.pc, TRUE if ok else FALSE); o.replay = None; obls.append(o)
            if not ok: continue
            paid = tr[0][0]
            mn = T.ite(T.cmp('<=', owed, vault_amt), owed, vault_amt)
            o = M.Obligation(f'{tag}:path{i}:pays_min_of_owed_and_vault_balance', p.pc, T.cmp('=', paid, mn)); o.replay = None; obls.append(o)
            o = M.Obligation(f'{tag}:path{i}:from_reward_vault_to_owner_account', p.pc, TRUE if ('reward_vault' in tr[0][1] and 'reward_owner_account' in tr[0][1]) else FALSE, note=str(tr[0][1])); o.replay = None; obls.append(o)
            if True:
                post = pos.data.get('reward_infos').items[idx].get('amount_owed').t
                o = M.Obligation(f'{tag}:path{i}:remainder_stays_owed', p.pc, T.cmp('=', post, T.sub(owed, mn)), note='post amount_owed = owed - paid (read from the all-Ok path, explored last)'); o.replay = None
                obls.append(o)
        ctx.functions.update(e.executed)
        if idx < 3:
            ctx.add(f'M:{tag}:vacuity', 'M', 'discharged' if n_ok else 'fault', 0, f'{n_ok} successful paths', False)
        ctx.discharge(obls)
    return task


def set_reward_emissions_task(v2, idx):
    def task(ctx):
        fn = 'instructions::v2::set_reward_emissions::handler' if v2 else 'instructions::set_reward_emissions::handler'
        st = 'SetRewardEmissionsV2' if v2 else 'SetRewardEmissions'
        tag = f"set_reward_emissions{'_v2' if v2 else ''}:index{idx}"
        e, ctxv, accts = setup(ctx, st)
        e.record_rx.append(re.compile(r'Whirlpool::update_emissions$'))
        wp = c17.acct(accts, 'whirlpool')
        old = [wp.data.get('reward_infos').items[k].get('emissions_per_second_x64').t for k in range(3)]
        vault_amt = c17.acct(accts, 'reward_vault').data.get('amount').t
        em = T.var('emissions_per_second_x64', 0, 2**128 - 1)
        args = [ctxv, I(C(idx), 'u8'), I(em, 'u128')]
        obls = []; n_ok = 0
        for i, (p, r) in enumerate(e.run(fn, args, Path())):
            if isinstance(r, Panic):
                o = M.Obligation(f'{tag}:path{i}:no_panic', p.pc, FALSE, note=r.msg); o.replay = None; obls.append(o); continue
            if not (isinstance(r, E) and r.var == 'Ok'): continue
            n_ok += 1
            day = T.div(T.mul(C(86400), em), C(1 << 64))
            o = M.Obligation(f'{tag}:path{i}:vault_holds_a_day_of_emissions', p.pc, T.cmp('>=', vault_amt, day)); o.replay = None; obls.append(o)
            seq = [ev for ev in p.trace if ev[0] in ('call', 'ret') and re.search(r'next_whirlpool_reward_infos$|Whirlpool::update_emissions$', ev[1])]
            kinds = [(ev[0], ev[1].split('::')[-1]) for ev in seq]
            shape = kinds[:3] == [('call', 'next_whirlpool_reward_infos'), ('ret', 'next_whirlpool_reward_infos'), ('call', 'update_emissions')]
            o = M.Obligation(f'{tag}:path{i}:accrual_settled_before_rate_change', p.pc, TRUE if shape else FALSE, note=str(kinds)); o.replay = None; obls.append(o)
            if not shape: continue
            wsnap = H.snapshot(e, seq[0][2][0])
            if isinstance(wsnap, H.Acct): wsnap = wsnap.data
            same_old = T.and_(*[T.cmp('=', wsnap.get('reward_infos').items[k].get('emissions_per_second_x64').t, old[k]) for k in range(3)]) if isinstance(wsnap, S) else FALSE
            o = M.Obligation(f'{tag}:path{i}:accrual_uses_the_old_rate', p.pc, same_old, note='next_whirlpool_reward_infos sees the stored (old) emission rates'); o.replay = None; obls.append(o)
            ua = [H.snapshot(e, x) for x in seq[2][2]]
            ret_infos = seq[1][2].fields[0] if isinstance(seq[1][2], E) else seq[1][2]
            goal = TRUE if (len(ua) >= 5 and ua[2] is ret_infos or (len(ua) >= 5 and repr(ua[2]) == repr(ret_infos))) else FALSE
            o = M.Obligation(f'{tag}:path{i}:stores_settled_growth_then_new_rate', p.pc,
                             T.and_(goal, T.cmp('=', ua[1].t, C(idx)), T.cmp('=', ua[4].t, em)) if len(ua) >= 5 else FALSE,
                             note='update_emissions(index, the reward infos just accrued at the old rate, now, new rate)'); o.replay = None; obls.append(o)
        ctx.functions.update(e.executed)
        ctx.add(f'M:{tag}:vacuity', 'M', 'discharged' if n_ok else 'fault', 0, f'{n_ok} successful paths', False)
        ctx.discharge(obls)
    return task


def update_emissions_task(ctx):
    """Whirlpool::update_emissions from an arbitrary pool state: the accrued reward infos of ALL three rewards and the timestamp are stored, then only the
    chosen reward's rate changes; an index >= 3 is rejected and changes nothing"""
    obls = []
    T.reset()
    e = M.Engine(ctx.mir())
    H.install(e)
    for idx in (0, 1, 2, 3):
        pre = e.havoc.value('Whirlpool', f'wp{idx}')
        fr0 = M.Frame(None); fr0.loc = {'_900': pre}
        infos = e.havoc.value('[WhirlpoolRewardInfo; 3]', f'acc{idx}')
        ts = T.var(f'ts{idx}', 0, 2**64 - 1); em = T.var(f'em{idx}', 0, 2**128 - 1)
        outs = list(e.run('Whirlpool::update_emissions', [M.Ref(fr0, '_900'), I(C(idx), 'usize'), infos, I(ts, 'u64'), I(em, 'u128')], Path()))
        tag = f'update_emissions:index{idx}'
        if len(outs) != 1 or isinstance(outs[0][1], Panic):
            o = M.Obligation(f'{tag}:single_path_no_panic', [], FALSE, note=str(outs)[:200]); o.replay = None; obls.append(o); continue
        p, r = outs[0]
        post = e.last_ext[0]
        if idx >= 3:
            o = M.Obligation(f'{tag}:invalid_index_rejected', p.pc, TRUE if (isinstance(r, E) and r.var == 'Err') else FALSE); o.replay = None; obls.append(o)
            same = [T.cmp('=', post.get('reward_last_updated_timestamp').t, pre.get('reward_last_updated_timestamp').t)]
            for j in range(3):
                for f in ('growth_global_x64', 'emissions_per_second_x64'):
                    same.append(T.cmp('=', post.get('reward_infos').items[j].get(f).t, pre.get('reward_infos').items[j].get(f).t))
            o = M.Obligation(f'{tag}:state_unchanged_on_error', p.pc, T.and_(*same)); o.replay = None; obls.append(o)
            continue
        o = M.Obligation(f'{tag}:ok', p.pc, TRUE if (isinstance(r, E) and r.var == 'Ok') else FALSE); o.replay = None; obls.append(o)
        goals = [T.cmp('=', post.get('reward_last_updated_timestamp').t, ts)]
        for j in range(3):
            pj, aj = post.get('reward_infos').items[j], infos.items[j]
            goals.append(T.cmp('=', pj.get('growth_global_x64').t, aj.get('growth_global_x64').t))
            goals.append(T.cmp('=', pj.get('emissions_per_second_x64').t, em if j == idx else aj.get('emissions_per_second_x64').t))
            for f in ('mint', 'vault'):
                goals.append(T.cmp('=', pj.get(f).t, aj.get(f).t))
        o = M.Obligation(f'{tag}:all_rewards_settled_then_only_this_rate_changes', p.pc, T.and_(*goals),
                         note='growth_global of every reward = the accrued value passed in, timestamp = now, emissions changed for the chosen reward only'); o.replay = None; obls.append(o)
        for f in ('liquidity', 'sqrt_price', 'fee_growth_global_a', 'fee_growth_global_b', 'protocol_fee_owed_a', 'protocol_fee_owed_b', 'tick_current_index'):
            o = M.Obligation(f'{tag}:{f}_untouched', p.pc, T.cmp('=', post.get(f).t, pre.get(f).t)); o.replay = None; obls.append(o)
    ctx.functions.update(e.executed)
    ctx.discharge(obls)
