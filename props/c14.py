"""C14 — adaptive fees follow the volatility schedule and stay within the hard limit (Engine K, function level)."""
ID = 'C14'
LEVEL = 'model_checking'
TECHNIQUE = ('bounded model checking of the compiled code (Kani/CBMC, SAT: cadical, kissat for the multiplication lemma): '
             'each adaptive-fee function against its documented rule over symbolic constants, stored variables, '
             'timestamps, prices and group indexes; tick<->price conversions abstracted by an uninterpreted strictly '
             'monotone function (T1) and its inverse contract (T2)')
FUNCTIONS = [
    'FeeRateManager::get_total_fee_rate + compute_adaptive_fee_rate (exact formula, Engine M from MIR)', 'swap / swap_v2 / two_hop_swap / two_hop_swap_v2 handlers (trade-enable glue, Engine M handler mode)',
    'state::oracle::AdaptiveFeeConstants::validate_constants',
    'state::oracle::AdaptiveFeeVariables::update_volatility_accumulator',
    'state::oracle::AdaptiveFeeVariables::update_reference',
    'state::oracle::AdaptiveFeeVariables::update_major_swap_timestamp / is_major_swap',
    'state::oracle::OracleAccessor::{new, is_trade_enabled, get_adaptive_fee_info}',
    'manager::fee_rate_manager::FeeRateManager::{new, update_volatility_accumulator, update_major_swap_timestamp, '
    'advance_tick_group, advance_tick_group_after_skip, get_total_fee_rate, compute_adaptive_fee_rate, '
    'get_bounded_sqrt_price_target, get_next_adaptive_fee_info}',
    'math::{floor_division, ceil_division_u32, ceil_division_u128, increasing_price_order, U256Muldiv::{new, shift_right, try_into_u128}}',
]
BOUNDS = [
    'constants: every 8-tuple accepted by validate_constants (all u16/u32 values); variables: every state with '
    'volatility_reference <= max, volatility_accumulator <= max, reference group = group of a storable tick; timestamps: all u64',
    'validate_constants rule list: input space partitioned into 5 harnesses by the magnitude of tick_group_size (union = all u16)',
    'get_total_fee_rate, FeeRateManager::new, get_bounded_sqrt_price_target, advance_tick_group_after_skip: tick_group_size fixed '
    'per harness to 1, 64 and 32896 (get_bounded_sqrt_price_target: 64 and 32896) because products/quotients of two symbolic '
    'values (accumulator*size, group<->tick conversions) are decided by SAT only erratically or not at all; everything else '
    'symbolic; the skipped span in advance_tick_group_after_skip is unbounded (closed-form reference)',
    'tick->price memo table: at most 12 distinct ticks per execution (asserted, never hit)',
]
ASSUMPTIONS = [
    'error conversions replaced by code-preserving stubs; message formatting stubbed',
    'T1: sqrt_price_from_tick_index replaced by an uninterpreted strictly increasing function on MIN_TICK..=MAX_TICK with '
    'p(MIN_TICK)=MIN_SQRT_PRICE, p(MAX_TICK)=MAX_SQRT_PRICE (a call outside the tick range is reported as a failure)',
    'T2: tick_index_from_sqrt_price(p) replaced by its contract: the tick t with p(t) <= p < p(t+1)',
    'update_major_swap_timestamp: U256Muldiv::mul replaced by an uninterpreted 256-bit product (which operands, shift, '
    'down-cast and comparison direction are checked; the value of the product is arithmetic for the other engine)',
    'FeeRateManager::new / get_bounded_sqrt_price_target harnesses: AdaptiveFeeVariables::update_reference replaced by its '
    'contract (InvalidTimestamp iff now < max timestamp; else unchanged, or reference group := current group, timestamp := now, '
    'new volatility_reference <= accumulator) which c14_update_reference_rules + c14_update_reference_decay_bounded prove',
    'size-generic no-overflow of accumulator*group_size is the arithmetic lemma c14_lemma_mul_monotone (thorough tier, kissat), '
    'not an execution of compute_adaptive_fee_rate with a symbolic size',
    'advance_tick_group_after_skip: loop invariant of swap assumed at the call (end price not behind the near boundary of the '
    'current group; next_tick_sqrt_price == p(next_tick_index)); stepping reference in closed form (first group in trade '
    'direction whose far boundary is not passed), justified by monotonicity of p and harnesses 2, 7, 8b',
    'trade-enable: the Whirlpool account holds the discriminator and zeros (only its key is read by OracleAccessor)',
]
OUTSIDE = [
    'per-step fee rate along whole swaps (swap loop level: which group each compute_swap step is charged for) - MIR engine',
    'T2 itself (tick_index_from_sqrt_price is the inverse of sqrt_price_from_tick_index) and the value of the major-swap price ratio',
    'group sizes other than 1, 64, 32896 in get_total_fee_rate / FeeRateManager::new / advance_tick_group_after_skip, and other than '
    '64, 32896 in get_bounded_sqrt_price_target (size 1 did not finish in 900 s)',
    'sequences of swaps (histories) are covered by the one-step preservation of the stored-variable invariant, not by multi-swap harnesses',
]
EXPLANATION = ('validate_constants equals the documented rule list; accumulator = min(ref + distance*10^4, max); total rate in '
               '[static, 10%]; reference follows filter/decay/one-hour rules; major-swap timestamp set iff larger >= smaller*factor>>64; '
               'core range sound; skip only where the rate is constant; after-skip bookkeeping equals stepping; trading gated by trade_enable_timestamp')


TECHNIQUE = TECHNIQUE + '; complemented by Engine M (rustc MIR -> integer SMT, z3 5.1): the exact total-rate formula, the per-iteration wiring of the manager calls in swap() with an abstract manager (A0-A6), the trade-enable gate of the four swap handlers'


def run(ctx):
    # Engine M: the exact rate formula (not decided by SAT) and the trade-enable glue of the four swap handlers (handler mode, shared with C17)
    # c14w: how swap() drives the manager (A0-A6: the step is charged the rate of THIS iteration, advance call matches the skip flag, major-swap timestamp arguments), abstract manager
    from props import c14m, c17, c14w
    ctx.mir()
    ctx.parallel(c14w.tasks() + [('rate', c14m.rate_task), ('handler:single', c17.single_task(False)), ('handler:single_v2', c17.single_task(True)),
                  ('handler:two_hop', c17.two_hop_task(False)), ('handler:two_hop_v2', c17.two_hop_task(True))], max_procs=8)
    ctx.run_kani(['c14.rs'])
