"""C02 — one swap step is priced on the exact curve, rounded only in the pool's favour (Engine M)."""
import time, os
from vlib import term as T, mirsmt as M, specs as SP
from vlib.term import C, TRUE, FALSE
from vlib.mirsmt import I, B, Path, Panic

ID = 'C02'
LEVEL = 'model_checking'
TECHNIQUE = 'symbolic execution of rustc MIR into integer SMT (exact mod-2^k semantics), z3 5.1 NIA; leaves proved equivalent to closed-form specs, compute_swap executed against them'
FUNCTIONS = ['math::swap_math::compute_swap', 'math::token_math::try_get_amount_delta_a', 'math::token_math::try_get_amount_delta_b',
             'math::token_math::get_next_sqrt_price_from_a_round_up', 'math::token_math::get_next_sqrt_price_from_b_round_down',
             'math::bit_math::checked_mul_div_round_up_if', 'math::bit_math::div_round_up_if', 'math::bit_math::div_round_up_if_u256']
BOUNDS = ['no unrolling needed (loop-free); amounts all u64, fee 0..=100000, liquidity all u128, prices in [MIN_SQRT_PRICE, MAX_SQRT_PRICE]',
          'per-query cap 60 s (quick) / 600 s (thorough); capped queries are reported undischarged, never as success']
ASSUMPTIONS = ['K12: whenever U256Muldiv::div(n,d) returns, it returns the floor quotient and remainder (assumed for the Knuth / native-u128 paths; smoke-checked by Kani on low-entropy sub-domains; the two EARLY RETURNS — zero dividend, and dividend with fewer 64-bit words than the divisor: quotient 0, remainder = dividend — are decided at full limb width by c02_k12_div_small_dividend_*). '
               'It does NOT always return: the Kani 4-word/3-word smoke harness found an out-of-bounds read of items[4] (panic) in the add-back branch of the carry iteration, '
               'natively confirmed e.g. by try_get_amount_delta_a(p(150000), p(150001), 276488252483076937113912584913284308804, true); it needs a quotient >= 2^64, i.e. inputs on which '
               'the non-panicking result could only be ExceedsMax. No property constrains failing computations, so this is an observation, not a finding; the `f_no_panic` '
               'obligations below are therefore to be read as "no panic outside U256Muldiv::div"',
               'K1-K11: 256-bit add/sub/shift/compare/mul kernels meet their integer contracts (Kani, C02 kernel harnesses)',
               'MIR of the nightly compiler agrees with the SBF build on safe integer code']
OUTSIDE = ['defects confined to the Knuth / native-u128 paths of U256Muldiv::div/div_loop outside the smoke-checked sub-domains (the early returns are decided)', 'obligations listed as undischarged in this file']
EXPLANATION = 'each feasible MIR path of compute_swap (callee deltas replaced by specs proved equivalent to their MIR) yields obligations (a)-(f) of DESIGN §6 C02'

MINP, MAXP = SP.MINP, SP.MAXP
W64 = C(1 << 64)
MILLION = C(1000000)


def amt_a(L, p_lo, p_hi):
    """(N, D) with exact token-A amount N/D"""
    return T.mul(T.mul(L, T.sub(p_hi, p_lo)), W64), T.mul(p_hi, p_lo)


def amt_b(L, p_lo, p_hi):
    return T.mul(L, T.sub(p_hi, p_lo)), W64


def is_ceil(x, N, D):
    return T.and_(T.cmp('>=', T.mul(x, D), N), T.or_(T.cmp('=', x, C(0)), T.cmp('<', T.mul(T.sub(x, C(1)), D), N)))


def is_floor(x, N, D):
    return T.and_(T.cmp('<=', T.mul(x, D), N), T.cmp('>', T.mul(T.add(x, C(1)), D), N))


def step_goals(inp, out, exact_in, a_to_b):
    """the C02 obligations as terms over inputs and outputs (usable with constants for replay)"""
    rem, fee, L, cur, tgt = inp['rem'], inp['fee'], inp['L'], inp['cur'], inp['tgt']
    ain, aout, nxt, fe = out['ain'], out['aout'], out['nxt'], out['fe']
    g = {}
    lo, hi = (nxt, cur) if a_to_b else (cur, nxt)
    # (a) direction, never past target
    g['a_direction'] = T.and_(T.cmp('<=', tgt, nxt), T.cmp('<=', nxt, cur)) if a_to_b else \
        T.and_(T.cmp('<=', cur, nxt), T.cmp('<=', nxt, tgt))
    in_N, in_D = amt_a(L, lo, hi) if a_to_b else amt_b(L, lo, hi)
    out_N, out_D = amt_b(L, lo, hi) if a_to_b else amt_a(L, lo, hi)
    # (b) exact amounts for the move actually made
    g['b_in_ceil'] = is_ceil(ain, in_N, in_D)
    if exact_in:
        g['b_out_floor'] = is_floor(aout, out_N, out_D)
    else:
        # min(floor(exact), remaining)
        g['b_out_floor_or_cap'] = T.or_(T.and_(is_floor(aout, out_N, out_D), T.cmp('<=', aout, rem)),
                                       T.and_(T.cmp('=', aout, rem), T.cmp('<', T.mul(rem, out_D), out_N)))
    stopped = T.not_(T.cmp('=', nxt, tgt))
    calc = T.div(T.mul(rem, T.sub(MILLION, fee)), MILLION)
    if exact_in:
        g['d_complete'] = T.and_(T.cmp('<=', T.add(ain, fe), rem), T.implies(stopped, T.cmp('=', T.add(ain, fe), rem)))
        g['c1_affordable'] = T.implies(stopped, T.cmp('<=', in_N, T.mul(calc, in_D)))
        if a_to_b:
            n2 = T.sub(nxt, C(1))
            N2, D2 = amt_a(L, n2, cur)
            g['c2_tight'] = T.implies(T.and_(stopped, T.cmp('>=', n2, C(1))), T.cmp('>', N2, T.mul(calc, D2)))
        else:
            n2 = T.add(nxt, C(1))
            N2, D2 = amt_b(L, cur, n2)
            g['c2_tight'] = T.implies(stopped, T.cmp('>', N2, T.mul(calc, D2)))
        fee_formula = T.ite(stopped, T.cmp('=', fe, T.sub(rem, ain)), is_ceil(fe, T.mul(ain, fee), T.sub(MILLION, fee)))
    else:
        g['d_complete'] = T.and_(T.cmp('<=', aout, rem), T.implies(stopped, T.cmp('=', aout, rem)))
        g['c1_delivers'] = T.implies(stopped, T.cmp('>=', out_N, T.mul(rem, out_D)))
        if a_to_b:
            n2 = T.add(nxt, C(1))   # one unit closer to cur
            N2, D2 = amt_b(L, n2, cur)
            g['c2_tight'] = T.implies(T.and_(stopped, T.cmp('<=', n2, cur)), T.cmp('<', N2, T.mul(rem, D2)))
        else:
            n2 = T.sub(nxt, C(1))
            N2, D2 = amt_a(L, cur, n2)
            g['c2_tight'] = T.implies(T.and_(stopped, T.cmp('>=', n2, cur)), T.cmp('<', N2, T.mul(rem, D2)))
        fee_formula = is_ceil(fe, T.mul(ain, fee), T.sub(MILLION, fee))
    g['fee_formula'] = fee_formula
    return g


def parse_native(out):
    p = out.split()
    if p and p[0] == 'Ok' and len(p) == 5:
        return dict(ain=int(p[1]), aout=int(p[2]), nxt=int(p[3]), fe=int(p[4]))
    return None


def mk_check(gname, exact_in, a_to_b):
    def check(vals, native_out):
        o = parse_native(native_out)
        if o is None:
            return True      # only successful computations are constrained
        inp = dict(rem=C(vals[0]), fee=C(vals[1]), L=C(vals[2]), cur=C(vals[3]), tgt=C(vals[4]))
        outc = {k: C(v) for k, v in o.items()}
        g = step_goals(inp, outc, exact_in, a_to_b)[gname]
        return bool(T.evaluate(g, {}))
    return check


def leaf_task(nm, spec, pack_args, variants):
    """one leaf ≡ spec, for each concrete flag variant"""
    def task(ctx):
        T.reset()
        e = M.Engine(ctx.mir())
        obls = []
        for flag in variants:
            fb = TRUE if flag else FALSE
            args, sargs = pack_args(fb)
            obls += SP.leaf_obligations(e, nm, args, spec, sargs, tag=f'leaf:{nm.split("::")[-1]}:flag={flag}')
        for o in obls: o.replay = None
        ctx.functions.update(e.executed)
        ctx.discharge(obls)
    return task


def leaf_tasks():
    def delta_args(fb):
        p0 = T.var('p0', MINP, MAXP); p1 = T.var('p1', MINP, MAXP); L = T.var('L', 0, 2**128 - 1)
        return [I(p0, 'u128'), I(p1, 'u128'), I(L, 'u128'), B(fb)], [p0, p1, L, fb]
    def price_args(fb):
        p = T.var('p', MINP, MAXP); L = T.var('L', 0, 2**128 - 1); a = T.var('amt', 0, 2**64 - 1)
        return [I(p, 'u128'), I(L, 'u128'), I(a, 'u64'), B(fb)], [p, L, a, fb]
    def muldiv_args(fb):
        n0 = T.var('n0', 0, 2**128 - 1); n1 = T.var('n1', 0, 2**128 - 1); d = T.var('d', 0, 2**128 - 1)
        return [I(n0, 'u128'), I(n1, 'u128'), I(d, 'u128'), B(fb)], [n0, n1, d, fb]
    def mulshift_args(fb):
        n0 = T.var('n0', 0, 2**128 - 1); n1 = T.var('n1', 0, 2**128 - 1)
        return [I(n0, 'u128'), I(n1, 'u128'), B(fb)], [n0, n1, fb]
    return [
        ('leaf:delta_a', leaf_task('token_math::try_get_amount_delta_a', SP.spec_try_delta_a, delta_args, (True, False))),
        ('leaf:delta_b', leaf_task('token_math::try_get_amount_delta_b', SP.spec_try_delta_b, delta_args, (True, False))),
        ('leaf:next_a', leaf_task('get_next_sqrt_price_from_a_round_up', SP.spec_next_price_from_a, price_args, (True, False))),
        ('leaf:next_b', leaf_task('get_next_sqrt_price_from_b_round_down', SP.spec_next_price_from_b, price_args, (True, False))),
        ('leaf:mul_div', leaf_task('checked_mul_div_round_up_if', SP.spec_mul_div_round_up_if, muldiv_args, (True, False))),
        ('leaf:mul_shift_right', leaf_task('checked_mul_shift_right_round_up_if', SP.spec_mul_shift_right_round_up_if, mulshift_args, (True, False))),
    ]


def install_summaries(e):
    import re
    e.summaries.append((re.compile(r'try_get_amount_delta_a$'), SP.as_summary(SP.spec_try_delta_a, SP.pack_delta)))
    e.summaries.append((re.compile(r'try_get_amount_delta_b$'), SP.as_summary(SP.spec_try_delta_b, SP.pack_delta)))
    e.summaries.append((re.compile(r'get_next_sqrt_price_from_a_round_up$'), SP.as_summary(SP.spec_next_price_from_a, SP.pack_u128)))
    e.summaries.append((re.compile(r'get_next_sqrt_price_from_b_round_down$'), SP.as_summary(SP.spec_next_price_from_b, SP.pack_u128)))


def step_task(exact_in, a_to_b, keep=None):
    def task(ctx):
        T.reset()
        e = M.Engine(ctx.mir())
        install_summaries(e)
        t0 = time.time()
        rem = T.var('rem', 0, 2**64 - 1); fee = T.var('fee', 0, 100000); L = T.var('L', 0, 2**128 - 1)
        cur = T.var('cur', MINP, MAXP); tgt = T.var('tgt', MINP, MAXP)
        inp = dict(rem=rem, fee=fee, L=L, cur=cur, tgt=tgt)
        tag = f"{'in' if exact_in else 'out'}:{'a2b' if a_to_b else 'b2a'}"
        pre = [T.cmp('<=', tgt, cur) if a_to_b else T.cmp('>=', tgt, cur)]
        args = [rem, fee, L, cur, tgt, TRUE if exact_in else FALSE, TRUE if a_to_b else FALSE]
        outs = list(e.run('swap_math::compute_swap',
                          [I(rem, 'u64'), I(fee, 'u32'), I(L, 'u128'), I(cur, 'u128'), I(tgt, 'u128'),
                           B(TRUE if exact_in else FALSE), B(TRUE if a_to_b else FALSE)], Path(pre)))
        first, rest, n_ok = [], [], 0
        for i, (path, r) in enumerate(outs):
            if isinstance(r, Panic):
                o = M.Obligation(f'step:{tag}:path{i}:f_no_panic', path.pc, FALSE, note='panic path must be infeasible: ' + r.msg)
                o.replay = dict(fn='compute_swap', args=args, check=lambda vals, out: out != 'Panic')
                o.nontrivial = False
                first.append(o); continue
            if r.var != 'Ok': continue
            n_ok += 1
            st = r.fields[0]
            out = dict(ain=st.get('amount_in').t, aout=st.get('amount_out').t, nxt=st.get('next_price').t, fe=st.get('fee_amount').t)
            goals = step_goals(inp, out, exact_in, a_to_b)
            nw = [ev[3] for ev in path.trace if ev[1] == 'nowrap']
            if nw: goals['f_no_wrap'] = T.and_(*nw)
            for gname, g in goals.items():
                if keep and gname not in keep: continue
                o = M.Obligation(f'step:{tag}:path{i}:{gname}', path.pc, g)
                o.pathid = i
                o.replay = dict(fn='compute_swap', args=args,
                                check=mk_check(gname, exact_in, a_to_b) if gname != 'f_no_wrap' else (lambda vals, out: out != 'Panic'))
                (first if gname == 'a_direction' else rest).append(o)
        # vacuity witnesses: the path condition of every Ok path must be satisfiable
        wit = []
        for i, (path, r) in enumerate(outs):
            if not isinstance(r, Panic) and r.var == 'Ok':
                w = M.Obligation(f'step:{tag}:path{i}:witness', path.pc, FALSE); w.pathid = i; wit.append(w)
        M.discharge(wit, 20, ctx.jobs, os.path.join(ctx.logdir, 'smt_wit'))
        feasible = {w.pathid for w in wit if w.verdict == 'sat'}
        for o in rest + first:
            if hasattr(o, 'pathid'): o.nontrivial = o.pathid in feasible
        ctx.extra['paths'] = {'outcomes': len(outs), 'ok_paths': n_ok, 'ok_paths_with_sat_witness': len(feasible)}
        # twin: a deliberately wrong goal (input rounded DOWN) must come back sat and reproduce natively
        tw = None
        for i, (path, r) in enumerate(outs):
            if i in feasible:
                st = r.fields[0]
                out = dict(ain=st.get('amount_in').t, aout=st.get('amount_out').t, nxt=st.get('next_price').t, fe=st.get('fee_amount').t)
                lo, hi = (out['nxt'], cur) if a_to_b else (cur, out['nxt'])
                N, D = amt_a(L, lo, hi) if a_to_b else amt_b(L, lo, hi)
                tw = M.Obligation(f'step:{tag}:twin_in_rounds_down', path.pc, T.cmp('<=', T.mul(out['ain'], D), N))
                def chk(vals, o_):
                    o2 = parse_native(o_)
                    if o2 is None: return True
                    lo_, hi_ = (o2['nxt'], vals[3]) if a_to_b else (vals[3], o2['nxt'])
                    N_, D_ = (vals[2] * (hi_ - lo_) << 64, hi_ * lo_) if a_to_b else (vals[2] * (hi_ - lo_), 1 << 64)
                    return o2['ain'] * D_ <= N_
                tw.replay = dict(fn='compute_swap', args=args, check=chk)
                M.discharge([tw], 60, 1, os.path.join(ctx.logdir, 'smt_twin'))
                if tw.verdict == 'sat': break
        if tw is None or tw.verdict != 'sat':
            ctx.add(f'M:step:{tag}:twin', 'M', 'fault', 0, 'vacuity twin (wrong rounding claim) was not refuted by the solver', False)
        else:
            from vlib import replay_m
            v, info = replay_m.replay(tw, os.path.join(ctx.logdir, 'mreplay.log'))
            ctx.add(f'M:step:{tag}:twin', 'M', 'discharged' if v == 'violates' else 'fault', tw.time,
                    'twin refuted and reproduced natively' if v == 'violates' else 'twin model did not reproduce natively: ' + info, False,
                    {'obligation': tw.key, 'verdict': 'sat (as required)', 'native': info})
        ctx.extra['engine_stats'] = dict(e.stats)
        ctx.extra['explore_s'] = round(time.time() - t0, 1)
        ctx.functions.update(e.executed)
        ctx.discharge(first)
        # a proved (a) is a sound lemma for the other goals of the same path
        proved = {o.pathid: o.goal for o in first if o.verdict == 'unsat' and hasattr(o, 'pathid')}
        for o in rest:
            if o.pathid in proved: o.hints.append(proved[o.pathid])
        ctx.discharge(rest)
    return task


def run(ctx):
    ctx.mir()
    tasks = leaf_tasks() + [(f"step:{'in' if ei else 'out'}:{'a2b' if ab else 'b2a'}", step_task(ei, ab))
                            for ei in (True, False) for ab in (True, False)]
    ctx.parallel(tasks, max_procs=9)
    ctx.run_kani(['c02.rs'])     # 256-bit kernel contracts K1-K11 (+ K12 smoke checks)
