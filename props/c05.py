"""C05 — tradable liquidity equals the sum of the positions covering the current tick (Engine K, inductive steps)."""
ID = 'C05'
LEVEL = 'model_checking'
TECHNIQUE = ('Kani/CBMC on the compiled functions: one inductive step from a symbolic pre-state that satisfies the invariant, '
             'all other positions summarised by symbolic ghost sums; full-width u128/i128 arithmetic')
FUNCTIONS = [
    'manager::whirlpool_manager::next_whirlpool_liquidity', 'pinocchio::ported::manager_liquidity_manager::pino_next_whirlpool_liquidity',
    'manager::tick_manager::next_tick_modify_liquidity_update', 'pinocchio::ported::manager_liquidity_manager::pino_next_tick_modify_liquidity_update',
    'manager::position_manager::next_position_modify_liquidity_update', 'pinocchio::ported::manager_liquidity_manager::pino_next_position_modify_liquidity_update',
    'manager::liquidity_manager::calculate_modify_liquidity + sync_modify_liquidity_values (thorough tier: wiring)',
    'pinocchio::ported::manager_liquidity_manager::pino_calculate_modify_liquidity + pino_sync_modify_liquidity_values (thorough tier: wiring)',
    'manager::swap_manager::calculate_update (hook verif_calculate_update)', 'math::liquidity_math::add_liquidity_delta',
]
BOUNDS = [
    'one step (one liquidity change of one position / one tick crossing); all values full width',
    'one harness per placement of the current tick (below / inside incl. cur == lower / above incl. cur == upper), per bound (lower / upper), '
    'per part of the post-condition and per implementation: a SAT instance mixing the cases costs CaDiCaL 10x the sum of the separate ones',
    'unwind 34 (3 rewards -> 4; 32-byte key comparison -> 33)',
]
ASSUMPTIONS = [
    'pre-state satisfies the invariant: stored net / gross / initialized / pool.liquidity are built from the ghost sums and the position liquidity, '
    'and every such sum fits its field (u128 gross and pool liquidity, i128 net) — true of every stored value in a state where the invariant holds',
    'crossing: the stored net is not i128::MIN (needs 2^127 of liquidity ending at one tick; deposits are bounded by u64 token amounts, C08). '
    'For that one value `-tick.liquidity_net` in calculate_update overflows (wraps in the release profile)',
    'crossing: only initialised ticks are crossed and each exactly once in order (C10)',
    'wiring harnesses: checked_mul_div / checked_mul_shift_right replaced by arbitrary-outcome contract stubs (liquidity fields do not depend on them); '
    'tick arrays are a two-slot implementation of the program\'s TickArrayType / TickArray traits holding the touched ticks '
    '(real fixed / dynamic array addressing: C10 contracts G2-G3, C13); position ticks are within [MIN_TICK_INDEX, MAX_TICK_INDEX], lower < upper',
    'error conversions replaced by code-preserving stubs; message formatting stubbed; bool bytes in accounts are 0/1',
]
OUTSIDE = [
    'composing the steps over unbounded histories and unbounded sets of positions (incl. that modify-liquidity and the swap loop are the only writers '
    'of these fields) is a written argument (DESIGN §4), not a solver verdict',
    'the step "(component result == invariant recomputed from ghosts) + (calculate/sync store exactly the component results)" is two solver verdicts '
    'joined by substitution of equals',
    'tick-array storage (both encodings), the swap loop\'s choice of the next initialised tick and its tick shift: C10 / C13 / C03',
]
EXPLANATION = ('pool.liquidity, tick net/gross/initialized and position.liquidity after a liquidity change equal the invariant recomputed with lp + delta; '
               'errors exactly on the documented overflow/underflow checks; a crossing maps the sum covering the origin segment to the sum covering the destination segment')


TECHNIQUE = TECHNIQUE + '; complemented by Engine M (rustc MIR -> integer SMT, z3 5.1): Floyd verification of the swap loop (crossing exactness X1-X6), and by the shared Kani harnesses for the tick-sequence roll-over (c10.rs) and the Pinocchio dynamic-array history (c13.rs)'


def run(ctx):
    # Engine M complement (props/mextra.py): the swap loop's crossing/fee/reward wiring (Floyd verification shared with C03) and, where relevant, the payout handlers and leaf kernels
    from props import mextra
    ctx.mir()
    ctx.parallel(mextra.c05_tasks(), max_procs=6)
    # c10.rs: the two `prop=C10,C05` harnesses (sequence search == reference across the array roll-over) decide the C10 contract this property's crossing step assumes
    # c13.rs: the `prop=C13,C12,C05` harness (Pinocchio dynamic tick array: inserting a tick below an initialised one keeps that tick's stored contents) — the storage the liquidity bookkeeping relies on
    ctx.run_kani(['c05.rs', 'c10.rs'] + (['c13.rs'] if ctx.tier == 'thorough' else []))      # the 20 GB dynamic-array history harness exceeds the quick budget: thorough tier only (C13's quick tier runs its core)
