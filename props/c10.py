"""C10 — a swap crosses exactly the initialised ticks in its path, however packaged (Engine K: parts a, b, d)."""
ID = 'C10'
LEVEL = 'model_checking'
TECHNIQUE = ('bounded model checking of the compiled code (Kani/CBMC, SAT) against references written in the harness; '
             'layered: L1 real get_offset classifies every slot relative to the search tick; L2 the 88-step scans with '
             'get_offset replaced by an arbitrary offset in [-1,87]; the array sequence with the per-array search '
             'replaced by its L2 reference')
FUNCTIONS = [
    'whirlpool::state::tick_array::TickArrayType::{in_search_range,tick_offset,is_min_tick_array,is_max_tick_array}',
    'whirlpool::state::tick_array::get_offset',
    'whirlpool::state::dynamic_tick_array::DynamicTickArrayLoader::get_next_init_tick_index',
    'whirlpool::state::fixed_tick_array::TickArray::get_next_init_tick_index',
    'whirlpool::util::swap_tick_sequence::SwapTickSequence::{new,get_next_initialized_tick_index}',
    'whirlpool::util::sparse_swap::get_start_tick_indexes',
    'whirlpool::state::tick::Tick::check_is_valid_start_tick',
]
BOUNDS = [
    'tick spacings: quick {1, 8, 64, 32896}, thorough additionally {2, 128, 256, 32768} for (a) dynamic array and (d); a symbolic spacing did not finish under CBMC (900-1500 s); the L1 offset lemma itself (floor division, 0 <= off < 88 iff tick inside the array) is decided for EVERY spacing 1..65535 by Engine M (props/c10m.py)',
    '(a) dynamic array: all 2^128 bitmaps, every valid start index (incl. the array straddling MIN_TICK_INDEX), every i32 search tick, both directions, unwind 90',
    '(a) fixed array REDUCED: 14 concrete start offsets (87 leftwards and -1 rightwards = full-length hand-over searches; 0..5 leftwards; 81..86 rightwards), spacing 8 and 128; symbolic initialized byte of all 88 slots, start index, search tick; a symbolic offset did not finish (900 s) / 13 GB',
    '(b) 2 dynamic arrays, start_array_index 0 (and index 2 for the running-off error), spacing 64, per direction; symbolic valid start indexes (so adjacent and non-adjacent arrays), bitmaps, search tick; a symbolic array count / index ran out of time (1200 s) / memory (13 GB); 3 arrays not finished in time',
    '(d) tick_current_index in [MIN_TICK_INDEX-1, MAX_TICK_INDEX], both directions, per spacing',
]
ASSUMPTIONS = [
    'builder_dedup (Engine M): <Vec as Extend>::extend = concatenation, <[T]>::sort_by_key = stable ascending sort by the closure key, Vec::dedup_by_key = drop every element whose key equals the last RETAINED element (documented std semantics, modelled; the closures are executed from the MIR); 3+0, 3+1, 3+3 accounts',
    'error conversions replaced by code-preserving stubs; message formatting stubbed',
    'start indexes of tick arrays satisfy Tick::check_is_valid_start_tick (enforced by initialize_tick_array / initialize_dynamic_tick_array)',
    'L2 harnesses (annotation contract): tick_array::get_offset replaced by "any offset in [-1,87]"; justified by the L1 harness c10_a_offset_lemma_* on the real function for the listed spacings',
    '(b): DynamicTickArrayLoader::get_next_init_tick_index replaced by its reference (range error, else nearest initialised slot relative to the real tick_offset, loop-free form proved equal to the reference scan by c10_ref_closed_form_eq_scan); fixed-array methods, get_tick and update_tick are stubbed with assert!(false) (proved unreachable from the search)',
    '(d): Account<Whirlpool> is built through a same-shape struct instead of Account::try_from (layout assumption checked by an assertion in every harness run)',
]
OUTSIDE = [
    '(c) loop-level crossing order is decided by the MIR engine on swap_manager::swap (C03/C10-c), other spacings',
    '(a) ZeroedTickArray == empty array: the type is pub(crate) and only reachable through try_build (not finished)',
    '(a) fixed array searches starting at interior offsets 6..86 leftwards / 0..80 rightwards',
    '(b) three arrays, start_array_index 1, fixed arrays inside a sequence, get_tick(ai, tn) of the returned tick',
    '(e) SparseSwapTickSequenceBuilder::try_build (selection of the three arrays by start index, foreign-pool rejection, named-uninitialised arrays): Kani harnesses did not finish (Vec<AccountInfo> sort/dedup/drop > 10 GB); only the merge/de-duplication step of ::new is decided (Engine M, std Vec operations modelled from their documentation)',
]


TECHNIQUE = TECHNIQUE + "; complemented by Engine M (rustc MIR -> integer SMT, z3 5.1): the tick_offset floor lemma for EVERY spacing, the builder's merge/de-duplication step with modelled std Vec operations, and the loop-level crossing order (Floyd verification of swap())"


def run(ctx):
    # Engine M complement (props/mextra.py): at loop level exactly the searched initialised ticks are crossed, each once, in price order (Floyd verification shared with C03)
    from props import mextra, c10m
    ctx.mir()
    # builder_dedup: SparseSwapTickSequenceBuilder::new from its MIR with std's Vec::extend / sort_by_key / dedup_by_key MODELLED from their documented semantics (3+0, 3+1, 3+3 accounts,
    #   symbolic keys): no key survives twice wherever the duplicates sit — the order/duplication-independence clause at the merge step (Kani could not: Vec<AccountInfo> sort/dedup > 10 GB)
    # offset_lemma: the floor lemma of tick_offset/get_offset for a SYMBOLIC spacing (the Kani L1 harnesses decide it for eight concrete spacings)
    ctx.parallel([('offset_lemma', c10m.offset_lemma_task)] + c10m.builder_tasks() + mextra.c10_tasks(), max_procs=8)
    ctx.run_kani(['c10.rs'])
