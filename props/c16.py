"""C16 — with transfer-fee tokens the pool still receives and pays the curve amounts (Engine M + K)."""
import time, os, re
from vlib import term as T, mirsmt as M, specs as SP
from vlib.term import C, TRUE, FALSE
from vlib.mirsmt import I, B, S, E, Path, Panic, Opaque

ID = 'C16'
LEVEL = 'model_checking'
TECHNIQUE = ('symbolic execution of rustc MIR (whirlpool + spl-token-2022 dependency) into integer SMT, z3 5.1; '
             'Kani/CBMC on the compiled code for the schedule choice (get_epoch_transfer_fee and the Pinocchio path on real mint images, symbolic older/newer TransferFee and clock epoch)')
FUNCTIONS = ['util::v2::token::calculate_transfer_fee_excluded_amount', 'util::v2::token::calculate_transfer_fee_included_amount',
             'pinocchio::ported::util_token::pino_calculate_transfer_fee_excluded_amount / _included_amount',
             'spl_token_2022::extension::transfer_fee::TransferFee::{calculate_fee, calculate_pre_fee_amount, calculate_inverse_fee, ceil_div}',
             'instructions::v2::swap::swap_with_transfer_fee_extension',
             'util::v2::token::get_epoch_transfer_fee; pinocchio pino_calculate_transfer_fee_excluded_amount -> load_token_program_account_unchecked, parse_token_extensions, pino_get_epoch_transfer_fee (k/src/c16.rs)',
             'pinocchio::instructions::{increase,decrease}_liquidity_v2 / increase_liquidity_by_token_amounts_v2 / reposition_liquidity_v2 handlers (handler mode: which amount is converted, maxima/minima placement)']
BOUNDS = ['K epoch choice: 278-byte mint image with ONE TLV entry at a fixed position (length pinned to 108), entry type number, both (epoch, maximum_fee, bps) triples, owner (SPL Token / Token-2022) and clock epoch symbolic; unwind 4',
          'loop-free; all u64 amounts, basis points 0..=10000, any maximum fee, any epoch schedule (the selected TransferFee is an arbitrary value)']
ASSUMPTIONS = ['the Token-2022 processor withholds exactly TransferFee::calculate_fee(amount) (its own MIR is executed, the processor is not)',
               'transfer_fee_basis_points <= 10000 (enforced by Token-2022 when the fee is set)',
               'Engine M: get_epoch_transfer_fee / pino_get_epoch_transfer_fee return an arbitrary Option<TransferFee>; WHICH schedule they select is decided by the Kani harnesses (Clock::get stubbed to a symbolic epoch; TransferFee::calculate_fee replaced by a recording stub in the Pinocchio harness)',
               'in swap_with_transfer_fee_extension the callee `swap` is an arbitrary PostSwapUpdate constrained by the C03 contract (never more than specified in exact-in / out exact-out)']
OUTSIDE = ['multi-entry TLV walks in the epoch-choice harnesses (C19 decides the TLV walk), Err from Clock::get', 'event fields']
EXPLANATION = 'fee inversion exact and minimal; conversions placed on the right amounts in the v2 swap wrapper'

U64 = 2**64 - 1
TENK = C(10000)


def fee_of(x, bps, mx):
    raw = T.div(T.add(T.mul(x, bps), C(9999)), TENK)
    return T.ite(T.or_(T.cmp('=', bps, C(0)), T.cmp('=', x, C(0))), C(0), T.ite(T.cmp('<=', raw, mx), raw, mx))


def net(x, bps, mx):
    return T.sub(x, fee_of(x, bps, mx))


def mirs(ctx):
    m = ctx.mir()
    s = ctx.mir('spl2022', pkg='spl-token-2022@8.0.1')
    if not getattr(m, '_merged_spl', False):
        m.merge(s); m._merged_spl = True
    return m


def epoch_fee_summary(bps, mx, ep, err_kind):
    """get_epoch_transfer_fee: Err | Ok(None) | Ok(Some(TransferFee{epoch, maximum_fee, bps}))"""
    def h(e, callee, args, path):
        yield path.with_trace(('epoch_fee', 'err')), E('Err', [Opaque(err_kind)])
        yield path.with_trace(('epoch_fee', 'none')), E('Ok', [E('None')])
        yield path.with_trace(('epoch_fee', 'some')), E('Ok', [E('Some', [S([I(ep, 'u64'), I(mx, 'u64'), I(bps, 'u16')])])])
    return h


def havoc_ok(tag):
    def h(e, callee, args, path):
        yield path, E('Err', [Opaque(tag + '_err')])
        yield path, E('Ok', [Opaque(tag)])
    return h


def opaque(tag):
    def h(e, callee, args, path):
        yield path, Opaque(tag)
    return h


def conv_task(pino):
    def task(ctx):
        T.reset()
        e = M.Engine(mirs(ctx))
        bps = T.var('bps', 0, 10000); mx = T.var('max_fee', 0, U64); ep = T.var('epoch', 0, U64)
        x = T.var('amount', 0, U64)
        if pino:
            e.summaries += [(re.compile(r'load_token_program_account_unchecked'), havoc_ok('mint')),
                            (re.compile(r'extensions_tlv_data$'), opaque('tlv')),
                            (re.compile(r'parse_token_extensions$'), havoc_ok('ext')),
                            (re.compile(r'pino_get_epoch_transfer_fee$'), epoch_fee_summary(bps, mx, ep, 'e')),
                            (re.compile(r'as Deref>::deref$'), lambda e_, c, a, p: iter([(p, a[0])]))]
            f_ex, f_in = 'pino_calculate_transfer_fee_excluded_amount', 'pino_calculate_transfer_fee_included_amount'
        else:
            e.summaries += [(re.compile(r'(^|::)get_epoch_transfer_fee$'), epoch_fee_summary(bps, mx, ep, 'e'))]
            f_ex, f_in = 'util::v2::token::calculate_transfer_fee_excluded_amount', 'util::v2::token::calculate_transfer_fee_included_amount'
        tag = 'pino' if pino else 'anchor'
        obls = []
        kinds = {}
        # ---- excluded
        for i, (path, r) in enumerate(e.run(f_ex, [Opaque('mint_account'), I(x, 'u64')], Path())):
            which = [t[1] for t in path.trace if t[0] == 'epoch_fee']
            if isinstance(r, Panic):
                o = M.Obligation(f'{tag}:excluded:path{i}:no_panic', path.pc, FALSE, note=r.msg); o.replay = None; obls.append(o); continue
            if r.var != 'Ok': continue
            st = r.fields[0]
            amt, fee = st.get('amount').t, st.get('transfer_fee').t
            kinds[f'excluded:{which}'] = kinds.get(f'excluded:{which}', 0) + 1
            if which == ['some']:
                g = T.and_(T.cmp('=', fee, fee_of(x, bps, mx)), T.cmp('=', T.add(amt, fee), x))
            else:
                g = T.and_(T.cmp('=', fee, C(0)), T.cmp('=', amt, x))
            o = M.Obligation(f'{tag}:excluded:path{i}:amount_plus_fee_is_included_and_fee_is_token2022_fee', path.pc, g); o.replay = None
            obls.append(o)
        # ---- included
        y = T.var('needed', 0, U64)
        for i, (path, r) in enumerate(e.run(f_in, [Opaque('mint_account'), I(y, 'u64')], Path())):
            which = [t[1] for t in path.trace if t[0] == 'epoch_fee']
            if isinstance(r, Panic):
                o = M.Obligation(f'{tag}:included:path{i}:no_panic', path.pc, FALSE, note=r.msg); o.replay = None; obls.append(o); continue
            if r.var != 'Ok': continue
            st = r.fields[0]
            inc, fee = st.get('amount').t, st.get('transfer_fee').t
            kinds[f'included:{which}'] = kinds.get(f'included:{which}', 0) + 1
            if which == ['some']:
                gs = {
                    'fee_is_token2022_fee_of_included': T.cmp('=', fee, fee_of(inc, bps, mx)),
                    'vault_receives_exactly_needed': T.cmp('=', net(inc, bps, mx), y),
                    'included_is_minimal': T.or_(T.cmp('=', inc, C(0)), T.cmp('<', net(T.sub(inc, C(1)), bps, mx), y)),
                    'fits_u64': T.cmp('<=', inc, C(U64)),
                }
            else:
                gs = {'no_fee_config_identity': T.and_(T.cmp('=', fee, C(0)), T.cmp('=', inc, y))}
            for name, g in gs.items():
                o = M.Obligation(f'{tag}:included:path{i}:{name}', path.pc, g); o.replay = None
                obls.append(o)
        # lemma that turns "g(inc-1) < needed" into global minimality: net amount is non-decreasing
        a = T.var('la', 0, U64 - 1)
        o = M.Obligation(f'{tag}:lemma:net_amount_non_decreasing', [], T.cmp('<=', net(a, bps, mx), net(T.add(a, C(1)), bps, mx))); o.replay = None
        obls.append(o)
        ctx.extra['outcomes'] = kinds
        ctx.extra['engine_stats'] = dict(e.stats)
        ctx.functions.update(e.executed)
        ctx.discharge(obls)
        # twin: "included amount carries no fee" must be refuted
        tw = M.Obligation(f'{tag}:twin', [], T.cmp('=', fee_of(T.var('tx', 1, U64), bps, mx), C(0)))
        M.discharge([tw], 30, 1, os.path.join(ctx.logdir, 'smt_twin'))
        ctx.add(f'M:{tag}:twin', 'M', 'discharged' if tw.verdict == 'sat' else 'fault', tw.time, 'twin refuted by the solver' if tw.verdict == 'sat' else 'twin not refuted', False)
    return task




# ------------------------------------------------------------------------------------------------
# swap_with_transfer_fee_extension: which conversion is applied to which amount
def wrapper_task(exact_in, a_to_b):
    def task(ctx):
        T.reset()
        e = M.Engine(mirs(ctx))
        # per-mint fee configuration: present flag + (bps, max)
        cfg = {}
        for nm in ('A', 'B'):
            cfg[nm] = dict(has=T.bvar(f'has_fee_{nm}'), bps=T.var(f'bps_{nm}', 0, 10000), mx=T.var(f'max_{nm}', 0, U64))

        def fee_m(mint, x):
            c = cfg[mint]
            return T.ite(c['has'], fee_of(x, c['bps'], c['mx']), C(0))

        def net_m(mint, x): return T.sub(x, fee_m(mint, x))

        def excl(e_, callee, args, path):
            mint = e_.deref(args[0]).tag; x = e_.deref(args[1]).t
            f = fee_m(mint, x)
            yield path.with_trace(('conv', 'excluded', mint, x)), E('Err', [Opaque('e')])
            yield path.with_trace(('conv', 'excluded', mint, x)), E('Ok', [S({'amount': I(T.sub(x, f), 'u64'), 'transfer_fee': I(f, 'u64')})])

        def incl(e_, callee, args, path):
            mint = e_.deref(args[0]).tag; y = e_.deref(args[1]).t
            inc = T.fresh('inc', 0, U64)
            contract = T.and_(T.cmp('=', net_m(mint, inc), y),
                              T.or_(T.cmp('=', inc, C(0)), T.cmp('<', net_m(mint, T.sub(inc, C(1))), y)))
            yield path.with_trace(('conv', 'included', mint, y)), E('Err', [Opaque('e')])
            p2 = Path(path.pc + [contract], path.trace + [('conv', 'included', mint, y, inc)])
            yield p2, E('Ok', [S({'amount': I(inc, 'u64'), 'transfer_fee': I(fee_m(mint, inc), 'u64')})])

        def swap_sum(e_, callee, args, path):
            amt = e_.deref(args[2]).t
            aa = T.fresh('swap_a', 0, U64); ab = T.fresh('swap_b', 0, U64)
            s_in, s_out = (aa, ab) if a_to_b else (ab, aa)
            # C03 contract of swap(): never more than specified in (exact-in) / out (exact-out)
            contract = T.cmp('<=', s_in, amt) if exact_in else T.cmp('<=', s_out, amt)
            yield path.with_trace(('swap', amt, None, None)), E('Err', [Opaque('e')])
            upd = S([I(aa, 'u64'), I(ab, 'u64')] + [Opaque(f'f{i}') for i in range(8)])
            yield Path(path.pc + [contract], path.trace + [('swap', amt, s_in, s_out)]), E('Ok', [M.Boxed(upd)])

        e.summaries += [(re.compile(r'calculate_transfer_fee_excluded_amount$'), excl),
                        (re.compile(r'calculate_transfer_fee_included_amount$'), incl),
                        (re.compile(r'swap_manager::swap$'), swap_sum)]
        amount = T.var('amount', 1, U64)
        tag = f"wrapper:{'in' if exact_in else 'out'}:{'a2b' if a_to_b else 'b2a'}"
        args = [Opaque('whirlpool'), Opaque('A'), Opaque('B'), Opaque('seq'), I(amount, 'u64'), I(T.var('limit', 0, 2**128 - 1), 'u128'),
                B(TRUE if exact_in else FALSE), B(TRUE if a_to_b else FALSE), I(T.var('ts', 0, U64), 'u64'), Opaque('afi')]
        min_, mout = ('A', 'B') if a_to_b else ('B', 'A')
        obls = []
        n_ok = 0
        lem = []
        for i, (path, r) in enumerate(e.run('instructions::v2::swap::swap_with_transfer_fee_extension', args, Path())):
            if isinstance(r, Panic):
                o = M.Obligation(f'{tag}:path{i}:no_panic', path.pc, FALSE, note=r.msg); o.replay = None; obls.append(o); continue
            if r.var != 'Ok': continue
            n_ok += 1
            upd = r.fields[0].val
            ra, rb = upd.get('amount_a').t, upd.get('amount_b').t
            rin, rout = (ra, rb) if a_to_b else (rb, ra)
            sw = [t for t in path.trace if t[0] == 'swap'][0]
            _, swap_amt, s_in, s_out = sw
            g = {}
            if exact_in:
                g['swap_runs_on_fee_excluded_input'] = T.cmp('=', swap_amt, net_m(min_, amount))
                g['user_pays_at_most_specified'] = T.cmp('<=', rin, amount)
                g['vault_receives_exactly_curve_input'] = T.cmp('=', net_m(min_, rin), s_in)
                g['reported_output_is_curve_output'] = T.cmp('=', rout, s_out)
            else:
                g['swap_runs_on_fee_included_output'] = T.cmp('=', net_m(mout, swap_amt), amount)
                g['vault_receives_exactly_curve_input'] = T.cmp('=', net_m(min_, rin), s_in)
                g['input_charged_is_minimal'] = T.or_(T.cmp('=', rin, C(0)), T.cmp('<', net_m(min_, T.sub(rin, C(1))), s_in))
                g['reported_output_is_curve_output'] = T.cmp('=', rout, s_out)
                g['user_receives_at_most_requested_net'] = T.cmp('<=', net_m(mout, rout), amount)
            for name, gg in g.items():
                o = M.Obligation(f'{tag}:path{i}:{name}', path.pc, gg); o.replay = None
                obls.append(o)
        ctx.extra['ok_paths'] = n_ok
        ctx.functions.update(e.executed)
        ctx.discharge(obls)
    return task


def run(ctx):
    mirs(ctx)
    tasks = [('conv:anchor', conv_task(False)), ('conv:pino', conv_task(True))]
    tasks += [(f"wrapper:{'in' if ei else 'out'}:{'a2b' if ab else 'b2a'}", wrapper_task(ei, ab)) for ei in (True, False) for ab in (True, False)]
    # Pinocchio liquidity handlers: deposits charge the fee-INCLUDED delta (maxima apply to it), withdrawals report the fee-EXCLUDED amount (minima apply to it)
    from props import pino
    tasks += [t for t in pino.tasks() if t[0].endswith('_v2')]
    ctx.parallel(tasks, max_procs=8)
    # which fee schedule applies (epoch choice) on real mint images, Anchor and Pinocchio, and their agreement (Engine K)
    ctx.run_kani(['c16.rs'])
