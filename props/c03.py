"""C03 — swaps honour the trader's amount, price-limit and slippage bounds (Engine M on swap_manager::swap, Engine K on handler glue)."""
import time, os, re
from vlib import term as T, mirsmt as M, specs as SP
from vlib.term import C, TRUE, FALSE
from vlib.mirsmt import I, B, S, E, Path, Panic, Opaque, Cut, Arr
from props import c02
from props.c08 import PriceFn

ID = 'C03'
LEVEL = 'model_checking'
TECHNIQUE = ('symbolic execution of the rustc MIR of swap_manager::swap into integer SMT (z3 5.1): Floyd cut-point verification at the swap '
             'loop header (base case from the entry, inductive step from a symbolic mid-loop state), every callee replaced by a contract '
             'that is proved elsewhere (compute_swap: C02; tick search: C10; tick<->price: C09); plus bounded unrolling from the entry')
FUNCTIONS = ['instructions::swap::handler', 'instructions::v2::swap::handler', 'instructions::two_hop_swap::handler', 'instructions::v2::two_hop_swap::handler', 'manager::swap_manager::swap', 'manager::swap_manager::calculate_fees', 'manager::swap_manager::get_next_sqrt_prices',
             'manager::fee_rate_manager::FeeRateManager::{new, update_volatility_accumulator, get_total_fee_rate, get_bounded_sqrt_price_target, '
             'advance_tick_group, advance_tick_group_after_skip, update_major_swap_timestamp, get_next_adaptive_fee_info} (Static variant)']
BOUNDS = ['loop invariant: one arbitrary outer iteration from an arbitrary invariant-satisfying state (covers any number of crossings)',
          'inner (adaptive-fee) loop: static fee manager only; a second inner iteration is shown infeasible',
          'bounded unrolling from the entry: k <= 2 outer iterations (quick) / 3 (thorough)',
          'all u64 amounts, all in-bound limits and prices, liquidity all u128, fee_rate <= 60000 (static), tick_spacing >= 1']
ASSUMPTIONS = [
    'S1: compute_swap contract (C02 a, d): next price between current and target in trade direction; exact-in: amount_in + fee <= remaining with equality '
    'when the target is not reached; exact-out: amount_out <= remaining with equality when the target is not reached',
    'G1: SwapTickSequence::get_next_initialized_tick_index returns (array >= start array, tick) with no initialized tick strictly between the search start and the '
    'returned tick (a_to_b: tick <= start inclusive; b_to_a: tick > start), or an error (decided by Kani in C10)',
    'G2-G4: get_tick returns the stored tick (its `initialized` flag is the truth about that tick), update_tick writes exactly that slot, get_tick_offset in [0, 87]',
    'T1/T2: sqrt_price_from_tick_index strictly increasing, clamped at the protocol bounds; tick_index_from_sqrt_price(p)=t with p(t) <= p < p(t+1) (C09)',
    'calculate_update: liquidity +/- liquidity_net with overflow check (decided by Kani in C05)',
    'pool invariant at entry: p(tick_current) <= sqrt_price <= p(tick_current+1), MIN_SQRT_PRICE <= sqrt_price <= MAX_SQRT_PRICE, fee_rate <= 60000, protocol_fee_rate <= 2500 (C19)',
    'adaptive_fee_info = None (static fee manager); the adaptive manager is covered at function level in C14',
]
OUTSIDE = ['adaptive-fee pools: the loop invariant I1-I8 / post-conditions with several inner (tick-group) iterations — for adaptive pools only the per-iteration wiring A0-A6 (props/c14w.py) is decided at loop level, the manager functions themselves in C14', 'Token-2022 transfer mechanics (C16)', 'two-hop composition (C17)']
EXPLANATION = ('swap() is cut at its outer loop header; Inv = {remaining <= amount, price between limit and start price, tick/price link, '
               'protocol fee <= fee sum, accounting ghosts}; obligations: entry => Inv, Inv & one iteration => Inv, Inv & exit => post-conditions')

MINP, MAXP = SP.MINP, SP.MAXP
MIN_TICK, MAX_TICK = -443636, 443636
U64, U128 = 2**64 - 1, 2**128 - 1

WP_FIELDS = None


def whirlpool_fields():
    """field order of `struct Whirlpool` read from the source (MIR addresses fields by index)"""
    global WP_FIELDS
    if WP_FIELDS is None:
        src = open(os.path.join(M.REPO, 'programs/whirlpool/src/state/whirlpool.rs')).read()
        body = re.search(r'pub struct Whirlpool \{(.*?)\n\}', src, re.S).group(1)
        WP_FIELDS = re.findall(r'^\s*pub (\w+):', body, re.M)
    return WP_FIELDS


def tick_fields():
    src = open(os.path.join(M.REPO, 'programs/whirlpool/src/state/tick.rs')).read()
    body = re.search(r'pub struct Tick \{(.*?)\n\}', src, re.S).group(1)
    return re.findall(r'^\s*pub (\w+):', body, re.M)


class World:
    """symbolic inputs + summaries for one (exact_in, a_to_b) configuration"""
    def __init__(self, ctx, exact_in, a_to_b, limit_mode):
        T.reset()
        self.exact_in, self.a_to_b, self.limit_mode = exact_in, a_to_b, limit_mode
        self.e = M.Engine(ctx.mir(), prune_ms=4000, max_steps=60000)
        self.pf = PriceFn()
        self.e.axioms = self.pf.side        # shared list: every instance of T1 ever created is a valid fact on every path
        self.fn = self.e.mir.find('swap_manager::swap')
        loops = M.fn_loops(self.fn)
        if len(loops) < 2:
            raise RuntimeError('swap(): expected an outer and an inner loop, found %d' % len(loops))
        (self.h_out, self.body_out), (self.h_in, self.body_in) = loops[0], loops[1]
        if not self.body_in < self.body_out:
            raise RuntimeError('swap(): loop nesting not recognised')
        self.dbg = self.fn.debug
        # ---- inputs
        f = {}
        for name in whirlpool_fields():
            f[name] = Opaque('wp.' + name)
        f['tick_spacing'] = I(T.var('tick_spacing', 1, 65535), 'u16')
        f['fee_rate'] = I(T.var('fee_rate', 0, 60000), 'u16')
        f['protocol_fee_rate'] = I(T.var('protocol_fee_rate', 0, 2500), 'u16')
        f['liquidity'] = I(T.var('liquidity', 0, U128), 'u128')
        f['sqrt_price'] = I(T.var('sqrt_price', MINP, MAXP), 'u128')
        f['tick_current_index'] = I(T.var('tick_current', MIN_TICK - 1, MAX_TICK), 'i32')
        f['fee_growth_global_a'] = I(T.var('fgg_a', 0, U128), 'u128')
        f['fee_growth_global_b'] = I(T.var('fgg_b', 0, U128), 'u128')
        self.wp = S(f)
        self.amount = T.var('amount', 0, U64)
        if limit_mode == 'none':
            self.limit = C(0)
        else:
            self.limit = T.var('limit', 1, U128)
        self.timestamp = T.var('timestamp', 0, U64)
        self.args = [self.wp, Opaque('tick_sequence'), I(self.amount, 'u64'), I(self.limit, 'u128'),
                     B(TRUE if exact_in else FALSE), B(TRUE if a_to_b else FALSE), I(self.timestamp, 'u64'), E('None')]
        tc, sp = f['tick_current_index'].t, f['sqrt_price'].t
        self.pre = [T.cmp('<=', self.pf.price(tc), sp), T.cmp('<=', sp, self.pf.price(T.add(tc, C(1))))]
        self.pre += self.pf.side
        self.witness = T.var('w_init_tick', MIN_TICK, MAX_TICK)     # an arbitrary initialized tick (universally quantified)
        self.install()

    # ------------------------------------------------------------------ summaries
    def install(self):
        e, pf, a_to_b, exact_in = self.e, self.pf, self.a_to_b, self.exact_in
        S_ = e.summaries

        def price_side(path, n0):
            return Path(path.pc + pf.side[n0:], path.trace)

        def contains(e, callee, args, path):
            m = re.search(r'const ([\w:]+::promoted\[\d+\]): &std::ops::RangeInclusive<u128> = \{.*?RangeInclusive::<u128>::new\(const ([\w:]+), const ([\w:]+)\)',
                          e.mir.txt, re.S)
            lo, hi = e.mir.const(m.group(2))[0], e.mir.const(m.group(3))[0]
            x = e.deref(args[1])
            yield path, B(T.and_(T.cmp('>=', x.t, C(lo)), T.cmp('<=', x.t, C(hi))))
        S_.append((re.compile(r'RangeInclusive::<u128>::contains'), contains))

        def reward_infos(e, callee, args, path):
            ok = T.bvar('reward_ok')
            p1 = e.fork(path, ok)
            if p1: yield p1, E('Ok', [Opaque('next_reward_infos')])
            p2 = e.fork(path, T.not_(ok))
            if p2: yield p2, E('Err', [E('InvalidTimestamp')])
        S_.append((re.compile(r'next_whirlpool_reward_infos$'), reward_infos))

        def search(e, callee, args, path):
            c = e.deref(args[1]).t
            sai = e.deref(args[4]).t
            okb = T.bvar('search_ok')
            pe = e.fork(path, T.not_(okb))
            if pe: yield pe.with_trace(('event', 'search_err')), E('Err', [E('TickArraySequenceInvalidIndex')])
            po = e.fork(path, okb)
            if po is None: return
            ai = T.fresh('next_ai', 0, 2)
            tn = T.fresh('next_tick', MIN_TICK, MAX_TICK)
            w = self.witness
            if a_to_b:
                facts = [T.cmp('<=', tn, c), T.not_(T.and_(T.cmp('<', tn, w), T.cmp('<=', w, c)))]
            else:
                facts = [T.cmp('>', tn, c), T.not_(T.and_(T.cmp('<', c, w), T.cmp('<', w, tn)))]
            facts.append(T.cmp('>=', ai, sai))
            po = Path(po.pc + facts, po.trace + [('event', 'search', c, tn, ai)])
            if not e.feasible(po.pc): return
            yield po, E('Ok', [S([I(ai, 'usize'), I(tn, 'i32')])])
        S_.append((re.compile(r'SwapTickSequence::<.*>::get_next_initialized_tick_index$'), search))

        S_.append((re.compile(r'sqrt_price_from_tick_index$'), pf.summary()))

        def tick_of_price(e, callee, args, path):
            p = e.deref(args[0]).t
            t = T.fresh('tick_of', MIN_TICK, MAX_TICK)
            n0 = len(pf.side)
            lo = pf.price(t); hi = pf.price(T.add(t, C(1)))
            facts = [T.cmp('<=', lo, p), T.or_(T.cmp('<', p, hi), T.cmp('>=', t, C(MAX_TICK)))]
            yield Path(path.pc + pf.side[n0:] + facts, path.trace), I(t, 'i32')
        S_.append((re.compile(r'tick_index_from_sqrt_price$'), tick_of_price))

        def compute_swap(e, callee, args, path):
            rem, fee, liq, cur, tgt = [e.deref(a).t for a in args[:5]]
            pre = T.cmp('<=', tgt, cur) if a_to_b else T.cmp('>=', tgt, cur)
            okb = T.bvar('step_ok')
            pe = e.fork(path, T.not_(okb))
            if pe: yield pe.with_trace(('event', 'step_err')), E('Err', [E('StepError')])
            po = e.fork(path, okb)
            if po is None: return
            ain = T.fresh('ain', 0, U64); aout = T.fresh('aout', 0, U64); fe = T.fresh('fee', 0, U64)
            nxt = T.fresh('nxt', 0, U128)
            facts = [T.and_(T.cmp('<=', tgt, nxt), T.cmp('<=', nxt, cur)) if a_to_b else T.and_(T.cmp('<=', cur, nxt), T.cmp('<=', nxt, tgt))]
            stopped = T.not_(T.cmp('=', nxt, tgt))
            if exact_in:
                facts += [T.cmp('<=', T.add(ain, fe), rem), T.implies(stopped, T.cmp('=', T.add(ain, fe), rem))]
            else:
                facts += [T.cmp('<=', aout, rem), T.implies(stopped, T.cmp('=', aout, rem))]
            po = Path(po.pc + facts, po.trace + [('event', 'step', dict(rem=rem, fee_rate=fee, liq=liq, cur=cur, tgt=tgt, ain=ain, aout=aout, nxt=nxt, fee=fe, pre=pre))])
            yield po, E('Ok', [S({'amount_in': I(ain, 'u64'), 'amount_out': I(aout, 'u64'), 'next_price': I(nxt, 'u128'), 'fee_amount': I(fe, 'u64')})])
        S_.append((re.compile(r'swap_math::compute_swap$'), compute_swap))

        def fees(e_, callee, args, path):
            vals = [e_.deref(a).t for a in args]
            fn = e_.mir.find('swap_manager::calculate_fees')
            for p2, rv in e_.run(fn, args, path.with_trace(('event', 'fees_call', vals))):
                if isinstance(rv, Panic): yield p2, rv
                else: yield p2.with_trace(('event', 'fees_ret', rv.get('0').t, rv.get('1').t)), rv
        S_.append((re.compile(r'(^|::)calculate_fees$'), fees))

        tf = tick_fields()

        def get_tick(e, callee, args, path):
            ai, tk = e.deref(args[1]).t, e.deref(args[2]).t
            okb = T.bvar('get_tick_ok')
            pe = e.fork(path, T.not_(okb))
            if pe: yield Path(pe.pc + [T.not_(T.cmp('=', tk, self.witness))], pe.trace + [('event', 'get_tick_err', ai, tk)]), E('Err', [E('TickNotFound')])
            po = e.fork(path, okb)
            if po is None: return
            ini = T.bvar('tick_initialized')
            net = T.fresh('liq_net', -(2**127), 2**127 - 1)
            d = {}
            for n in tf: d[n] = Opaque('tick.' + n)
            d['initialized'] = B(ini); d['liquidity_net'] = I(net, 'i128')
            # the witness tick is initialized: if it is this tick, the stored flag says so (G2)
            po = Path(po.pc + [T.implies(T.cmp('=', tk, self.witness), ini)], po.trace + [('event', 'get_tick', ai, tk, ini, net)])
            yield po, E('Ok', [S(d)])
        S_.append((re.compile(r'SwapTickSequence::<.*>::get_tick$'), get_tick))

        def map_or_else(e, callee, args, path):
            r = args[0]
            cl = re.findall(r'\{closure@[^}]*\}', callee)
            names = []
            for c in cl[-2:]:
                cands = [n for n, f in e.mir.fns.items() if f.sig.startswith('_1: ' + c)]
                names.append(cands[0])
            if r.var == 'Err':
                yield from e.run(e.mir.fns[names[0]], [Opaque('closure'), r.fields[0]], path)
            else:
                yield from e.run(e.mir.fns[names[1]], [Opaque('closure'), r.fields[0]], path)
        S_.append((re.compile(r'Result::<.*>::map_or_else::<'), map_or_else))

        def calc_update(e, callee, args, path):
            tick = e.deref(args[0]); liq = e.deref(args[2]).t
            net = tick.get('liquidity_net').t
            nl = T.sub(liq, net) if a_to_b else T.add(liq, net)
            ok = T.and_(T.cmp('>=', nl, C(0)), T.cmp('<=', nl, C(U128)))
            p1 = e.fork(path, ok)
            fga, fgb = e.deref(args[3]).t, e.deref(args[4]).t
            rw = e.deref(args[5]); rw_tag = rw.tag if isinstance(rw, Opaque) else repr(rw)[:40]
            if p1: yield Path(p1.pc, p1.trace + [('event', 'cross', liq, net, nl), ('event', 'cross_args', liq, fga, fgb, rw_tag)]), E('Ok', [S([Opaque('tick_update'), I(nl, 'u128')])])
            p2 = e.fork(path, T.not_(ok))
            if p2: yield p2, E('Err', [E('LiquidityOverflowOrUnderflow')])
        S_.append((re.compile(r'(^|::)calculate_update$'), calc_update))

        def update_tick(e, callee, args, path):
            ai, tk = e.deref(args[1]).t, e.deref(args[2]).t
            okb = T.bvar('update_tick_ok')
            pe = e.fork(path, T.not_(okb))
            if pe: yield pe, E('Err', [E('TickNotFound')])
            po = e.fork(path, okb)
            if po: yield po.with_trace(('event', 'update_tick', ai, tk)), E('Ok', [M.Unit()])
        S_.append((re.compile(r'SwapTickSequence::<.*>::update_tick$'), update_tick))

        def tick_offset(e, callee, args, path):
            okb = T.bvar('offset_ok')
            pe = e.fork(path, T.not_(okb))
            if pe: yield pe, E('Err', [E('TickNotFound')])
            po = e.fork(path, okb)
            if po: yield po, E('Ok', [I(T.fresh('tick_offset', 0, 87), 'isize')])
        S_.append((re.compile(r'SwapTickSequence::<.*>::get_tick_offset$'), tick_offset))

    # ------------------------------------------------------------------ frame access by source-level name
    def loc(self, fr, name):
        return fr.loc[self.dbg[name]]

    def t(self, fr, name):
        return self.loc(fr, name).t

    # ------------------------------------------------------------------ invariant
    def ghost0(self):
        return dict(gin=T.fresh('G_in', 0, None), gout=T.fresh('G_out', 0, None), ncross=T.fresh('G_ncross', 0, None))

    def ghosts_after(self, g0, path):
        gin, gout = g0['gin'], g0['gout']
        for ev in path.trace:
            if ev[1] == 'step':
                gin = T.add(gin, ev[2]['ain']); gout = T.add(gout, ev[2]['aout'])
        return dict(gin=gin, gout=gout, ncross=g0['ncross'])

    def inv(self, fr, g):
        """loop invariant at the outer header, over the frame's source-level variables and the ghosts"""
        wp = self.wp
        rem, calc, price, ctick = self.t(fr, 'amount_remaining'), self.t(fr, 'amount_calculated'), self.t(fr, 'curr_sqrt_price'), self.t(fr, 'curr_tick_index')
        pfee, fsum, lim = self.t(fr, 'curr_protocol_fee'), self.t(fr, 'fee_sum'), self.t(fr, 'adjusted_sqrt_price_limit')
        cai = self.t(fr, 'curr_array_index')
        start = wp.get('sqrt_price').t
        amount = self.amount
        d = {}
        d['I1_remaining_le_amount'] = T.and_(T.cmp('<=', rem, amount), T.cmp('>', amount, C(0)))
        d['I2_price_between_limit_and_start'] = T.and_(
            T.cmp('>=', lim, C(MINP)), T.cmp('<=', lim, C(MAXP)),
            (T.and_(T.cmp('<=', lim, price), T.cmp('<=', price, start)) if self.a_to_b else
             T.and_(T.cmp('>=', lim, price), T.cmp('>=', price, start))))
        n0 = len(self.pf.side)
        lo = self.pf.price(ctick); hi = self.pf.price(T.add(ctick, C(1)))
        self._inv_side = self.pf.side[n0:]
        d['I3_tick_price_link'] = T.and_(T.cmp('<=', lo, price), T.cmp('<=', price, hi), T.cmp('>=', ctick, C(MIN_TICK - 1)), T.cmp('<=', ctick, C(MAX_TICK)))
        d['I4_protocol_fee_le_fee_sum'] = T.cmp('<=', pfee, fsum)
        if self.exact_in:
            d['I5_accounting'] = T.and_(T.cmp('=', T.sub(amount, rem), T.add(g['gin'], fsum)), T.cmp('=', calc, g['gout']))
        else:
            d['I5_accounting'] = T.and_(T.cmp('=', T.sub(amount, rem), g['gout']), T.cmp('=', calc, T.add(g['gin'], fsum)))
        # witness: an arbitrary initialized tick w is either not yet passed, or was crossed (counted by the ghost) — stated per iteration below
        frm = self.loc(fr, 'fee_rate_manager')
        if isinstance(frm, E) and frm.var == 'Static':
            fv = frm.fields[0]
            if isinstance(fv, I):
                d['I7_static_rate'] = T.cmp('=', fv.t, wp.get('fee_rate').t)
        d['I8_array_index'] = T.and_(T.cmp('>=', cai, C(0)), T.cmp('<=', cai, C(3)))
        return d

    def adjusted_limit(self):
        if self.limit_mode == 'none':
            return C(MINP if self.a_to_b else MAXP)
        return self.limit

    # ------------------------------------------------------------------ havoc
    def havoc_frame(self, fr0):
        """frame at the outer header with every loop-modified live local replaced by a fresh symbol of the same shape"""
        fr = self.e.clone(fr0)
        mod = M.assigned_locals(self.fn, self.body_out)
        inv_names = {v: k for k, v in self.dbg.items()}
        for l in sorted(mod, key=lambda x: int(x[1:])):
            if l in fr.loc:
                fr.loc[l] = self.havoc_val(fr.loc[l], inv_names.get(l, l), self.fn.locals.get(l, ''))
        return fr

    def havoc_val(self, v, name, ty):
        if isinstance(v, I):
            k = M.BITS[v.ty]
            if v.ty.startswith('u'): lo, hi = 0, (1 << k) - 1
            else: lo, hi = -(1 << (k - 1)), (1 << (k - 1)) - 1
            return I(T.var('h_' + name, lo, hi), v.ty)
        if isinstance(v, B): return B(T.bvar('h_' + name))
        if isinstance(v, E): return E(v.var, [self.havoc_val(x, name + '_f', '') for x in v.fields])
        if isinstance(v, S):
            if isinstance(v.fields, dict): return S({k: self.havoc_val(x, name + '_' + k, '') for k, x in v.fields.items()})
            return S([self.havoc_val(x, f'{name}_{i}', '') for i, x in enumerate(v.fields)])
        if isinstance(v, Arr): return Arr([self.havoc_val(x, f'{name}_{i}', '') for i, x in enumerate(v.items)])
        return v   # Opaque / Ref / Unit: no numeric content


def post_goals(w, ret, rem_t, price_t, g, fsum_t, pfee_t, liq_t, ctick_t):
    """post-conditions of a successful swap over the returned PostSwapUpdate"""
    u = ret.fields[0]
    if isinstance(u, M.Boxed): u = u.val
    amount_a, amount_b = u.get('amount_a').t, u.get('amount_b').t
    inp, out = (amount_a, amount_b) if w.a_to_b else (amount_b, amount_a)
    nsp = u.get('next_sqrt_price').t
    lim = w.adjusted_limit()
    start = w.wp.get('sqrt_price').t
    d = {}
    if w.exact_in:
        d['P1_input_le_specified'] = T.cmp('<=', inp, w.amount)
        used = inp
    else:
        d['P1_output_le_specified'] = T.cmp('<=', out, w.amount)
        used = out
    d['P2_price_direction_and_limit'] = (T.and_(T.cmp('<=', lim, nsp), T.cmp('<=', nsp, start)) if w.a_to_b else
                                         T.and_(T.cmp('>=', lim, nsp), T.cmp('>=', nsp, start)))
    d['P2b_price_in_protocol_bounds'] = T.and_(T.cmp('>=', nsp, C(MINP)), T.cmp('<=', nsp, C(MAXP)))
    d['P3_partial_only_at_limit'] = T.implies(T.cmp('<', used, w.amount), T.cmp('=', nsp, lim))
    if not w.exact_in and w.limit_mode == 'none':
        d['P4_exact_out_no_limit_is_full'] = T.cmp('=', out, w.amount)
    # C06: what the trader pays = curve input + total fee; total fee = protocol share + LP share
    lp, npf = u.get('lp_fee').t, u.get('next_protocol_fee').t
    d['P5_fee_split'] = T.and_(T.cmp('=', T.add(lp, npf), fsum_t), T.cmp('>=', lp, C(0)))
    d['P5b_input_is_curve_plus_fee'] = T.and_(T.cmp('=', inp, T.add(g['gin'], fsum_t)), T.cmp('=', out, g['gout']))
    nri = u.get('next_reward_infos')
    d['P7_reward_infos_accrued_to_now_handed_over'] = TRUE if (isinstance(nri, Opaque) and nri.tag == 'next_reward_infos') else FALSE
    d['P6_state_handed_over'] = T.and_(T.cmp('=', u.get('next_liquidity').t, liq_t), T.cmp('=', u.get('next_tick_index').t, ctick_t),
                                       T.cmp('=', nsp, price_t))
    return d


def wiring_goals(w, fr0, fr1, path):
    """C06 inside the loop: every step's fee is split by calculate_fees against the liquidity that step traded on, with the pool's protocol rate,
    starting from the running protocol fee / growth, and the results become the running values"""
    steps = [ev[2] for ev in path.trace if ev[1] == 'step']
    calls = [ev[2] for ev in path.trace if ev[1] == 'fees_call']
    rets = [(ev[2], ev[3]) for ev in path.trace if ev[1] == 'fees_ret']
    d = {}
    d['W0_one_fee_split_per_step'] = TRUE if len(steps) == len(calls) == len(rets) else FALSE
    if len(steps) != len(calls) or len(calls) != len(rets) or not steps: return d
    pf, gr = w.t(fr0, 'curr_protocol_fee'), w.t(fr0, 'curr_fee_growth_global_input')
    for k, (st, c, r) in enumerate(zip(steps, calls, rets)):
        d[f'W1_fee_split_on_step_liquidity:{k}'] = T.and_(T.cmp('=', c[0], st['fee']), T.cmp('=', c[2], st['liq']), T.cmp('=', c[1], w.wp.get('protocol_fee_rate').t))
        d[f'W2_fee_split_continues_running_totals:{k}'] = T.and_(T.cmp('=', c[3], pf), T.cmp('=', c[4], gr))
        pf, gr = r
    for ev in path.trace:
        if ev[1] == 'cross_args':
            mine, other = (ev[3], ev[4]) if w.a_to_b else (ev[4], ev[3])
            oth_pool = w.wp.get('fee_growth_global_b' if w.a_to_b else 'fee_growth_global_a').t
            d['W4_crossing_uses_updated_growth_and_step_liquidity'] = T.and_(T.cmp('=', mine, gr), T.cmp('=', other, oth_pool), T.cmp('=', ev[2], steps[-1]['liq']))
            d['W5_crossing_uses_reward_growths_accrued_to_now'] = TRUE if ev[5] == 'next_reward_infos' else FALSE     # C11: not the stale stored infos
    d['W3_running_totals_updated'] = T.and_(T.cmp('=', w.t(fr1, 'curr_protocol_fee'), pf), T.cmp('=', w.t(fr1, 'curr_fee_growth_global_input'), gr))
    return d


def crossing_goals(w, fr0, fr1, path):
    """C10-c for one outer iteration (a_to_b: ticks in (c', c]; b_to_a: (c, c']): the arbitrary initialized witness tick, if passed, was the
    searched tick and was crossed exactly once; no other tick was updated"""
    c0, c1 = w.t(fr0, 'curr_tick_index'), w.t(fr1, 'curr_tick_index')
    wt = w.witness
    searches = [ev for ev in path.trace if ev[1] == 'search']
    updates = [ev for ev in path.trace if ev[1] == 'update_tick']
    crosses = [ev for ev in path.trace if ev[1] == 'cross']
    d = {}
    passed = T.and_(T.cmp('<', c1, wt), T.cmp('<=', wt, c0)) if w.a_to_b else T.and_(T.cmp('<', c0, wt), T.cmp('<=', wt, c1))
    d['X1_tick_index_monotone'] = T.cmp('<=', c1, c0) if w.a_to_b else T.cmp('>=', c1, c0)
    if len(searches) == 1:
        tn = searches[0][3]
        d['X2_passed_initialized_tick_is_crossed'] = T.implies(passed, T.and_(T.cmp('=', wt, tn), TRUE if len(updates) == 1 else FALSE))
        if updates:
            d['X3_only_searched_tick_updated'] = T.and_(*[T.and_(T.cmp('=', u[3], tn), T.cmp('=', u[2], searches[0][4])) for u in updates])
            d['X4_updated_tick_is_passed'] = T.and_(T.cmp('<', c1, tn), T.cmp('<=', tn, c0)) if w.a_to_b else T.and_(T.cmp('<', c0, tn), T.cmp('<=', tn, c1))
        d['X5_at_most_one_update'] = TRUE if len(updates) <= 1 and len(crosses) == len(updates) else FALSE
        cai0, cai1 = w.t(fr0, 'curr_array_index'), w.t(fr1, 'curr_array_index')
        reached = any(ev[1] in ('get_tick', 'get_tick_err') for ev in path.trace)
        if reached:
            d['X6_array_index_advances_by_at_most_one'] = T.and_(T.cmp('>=', cai1, searches[0][4]), T.cmp('<=', cai1, T.add(searches[0][4], C(1))))
        else:
            d['X6_array_index_kept_when_tick_not_reached'] = T.cmp('=', cai1, cai0)
    else:
        d['X0_one_search_per_iteration'] = FALSE
    return d


def config_task(exact_in, a_to_b, limit_mode, unroll):
    tag = f"{'in' if exact_in else 'out'}:{'a2b' if a_to_b else 'b2a'}:{limit_mode}"

    def task(ctx):
        t0 = time.time()
        w = World(ctx, exact_in, a_to_b, limit_mode)
        e = w.e
        e.cuts = {(w.fn.name, w.h_out), (w.fn.name, w.h_in)}
        obls = []

        def ob(key, pc, goal, nontrivial=True, note='', events=(), from_entry=False):
            o = M.Obligation(f'swap:{tag}:{key}', pc, goal, note=note, hints=w.pf.side)
            o.nontrivial = nontrivial
            evs = list(events)
            o.replay = dict(custom=lambda env, evs=evs, fe=from_entry: native_confirm(w, env, evs, fe))
            obls.append(o)
            return o

        def run_segment(fr, bb, path, from_entry=False):
            """run until the next outer-header cut / return; inner-header cuts are passed through once (a second visit must be infeasible)"""
            outs = []
            gen = e.run(w.fn, w.args, path) if from_entry else e.run_from(fr, bb, path)
            work = [(p, r, 0) for p, r in gen]
            while work:
                p, r, n_in = work.pop()
                if isinstance(r, Cut) and r.bb == w.h_in:
                    if n_in >= 1:
                        outs.append((p, ('second_inner', r)))
                    else:
                        work += [(p2, r2, n_in + 1) for p2, r2 in e.run_from(r.frame, r.bb, p)]
                    continue
                outs.append((p, r))
            return outs

        # ---------------- segment 0: entry -> header / return
        seg0 = run_segment(None, None, Path(list(w.pre)), from_entry=True)
        first = None
        n_err = {}
        for i, (p, r) in enumerate(seg0):
            if isinstance(r, Cut):
                first = first or r
                g = dict(gin=C(0), gout=C(0), ncross=C(0))
                for name, goal in w.inv(r.frame, g).items():
                    ob(f'base:{i}:{name}', p.pc + w._inv_side, goal, events=p.trace, from_entry=True)
            elif isinstance(r, Panic):
                ob(f'entry:{i}:no_panic', p.pc, FALSE, False, r.msg)
            elif isinstance(r, E) and r.var == 'Err':
                code = r.fields[0].var if isinstance(r.fields[0], E) else str(r.fields[0])
                n_err[code] = n_err.get(code, 0) + 1
            elif isinstance(r, E) and r.var == 'Ok':
                ob(f'entry:{i}:ok_without_loop', p.pc, FALSE, True, 'a swap cannot succeed without entering the loop (amount > 0 and price != limit)')
        if first is None:
            raise RuntimeError('swap(): loop header not reached from the entry')
        # documented argument errors: zero amount / limit on the wrong side or out of bounds never reach the loop
        lim_adj = w.adjusted_limit()
        start = w.wp.get('sqrt_price').t
        bad = T.or_(T.cmp('=', w.amount, C(0)), T.cmp('<', lim_adj, C(MINP)), T.cmp('>', lim_adj, C(MAXP)),
                    T.cmp('>', lim_adj, start) if a_to_b else T.cmp('<', lim_adj, start))
        for i, (p, r) in enumerate(seg0):
            if isinstance(r, Cut):
                ob(f'base:{i}:E1_invalid_arguments_rejected', p.pc, T.not_(bad), events=p.trace, from_entry=True)

        # ---------------- segment 1: arbitrary state at the header satisfying Inv -> header / return
        fr_h = w.havoc_frame(first.frame)
        g0 = w.ghost0()
        invd = w.inv(fr_h, g0)
        inv_pc = list(w.pre) + [x for x in invd.values()] + list(w._inv_side)
        seg1 = run_segment(fr_h, w.h_out, Path(inv_pc))
        n_ok = n_back = 0
        for i, (p, r) in enumerate(seg1):
            if isinstance(r, tuple) and r[0] == 'second_inner':
                ob(f'step:{i}:inner_loop_runs_once_for_static_fee', p.pc, FALSE, True, 'a second inner iteration must be infeasible for the static fee manager')
                continue
            steps = [ev[2] for ev in p.trace if ev[1] == 'step']
            for k, st in enumerate(steps):
                ob(f'step:{i}:S1_precondition:{k}', _pc_before(p, st), st['pre'], True, 'compute_swap is called with the target on the trade side of the current price')
            if isinstance(r, Cut):
                n_back += 1
                g1 = w.ghosts_after(g0, p)
                for name, goal in w.inv(r.frame, g1).items():
                    ob(f'step:{i}:{name}', p.pc + w._inv_side, goal, events=p.trace)
                for name, goal in wiring_goals(w, fr_h, r.frame, p).items():
                    ob(f'step:{i}:{name}', p.pc, goal, events=p.trace)
                for name, goal in crossing_goals(w, fr_h, r.frame, p).items():
                    ob(f'step:{i}:{name}', p.pc, goal, True, ' '.join(ev[1] for ev in p.trace if ev[1] != 'nowrap'), events=p.trace)
                nw = [ev[3] for ev in p.trace if ev[1] == 'nowrap']
                if nw: ob(f'step:{i}:no_wrap', p.pc, T.and_(*nw))
            elif isinstance(r, Panic):
                ob(f'step:{i}:no_panic', p.pc, FALSE, False, r.msg)
            elif isinstance(r, E) and r.var == 'Ok':
                n_ok += 1
                g1 = w.ghosts_after(g0, p)
                # the values of the loop variables on exit are those of the havoc'd frame if the loop exits at once, else of this path
                fe = getattr(p, 'exit_frame', None)
                for name, goal in post_goals(w, r, None, *exit_state(w, r, p, fr_h, g1)).items():
                    ob(f'exit:{i}:{name}', p.pc, goal, events=p.trace)
                nw = [ev[3] for ev in p.trace if ev[1] == 'nowrap']
                if nw: ob(f'exit:{i}:no_wrap', p.pc, T.and_(*nw))
        ctx.extra['segments'] = {'entry_outcomes': len(seg0), 'entry_errors': n_err, 'step_outcomes': len(seg1), 'back_edges': n_back, 'ok_exits': n_ok,
                                 'loop_headers': [w.h_out, w.h_in], 'engine': dict(e.stats), 'build_s': round(time.time() - t0, 1)}
        ctx.functions.update(e.executed)
        # vacuity: the invariant must be satisfiable and at least one back edge and one Ok exit must be feasible
        wit = M.Obligation(f'swap:{tag}:witness:inv_satisfiable', inv_pc, FALSE)
        M.discharge([wit], 30, 1, os.path.join(ctx.logdir, 'smt_wit'))
        if wit.verdict != 'sat' or n_back == 0 or n_ok == 0:
            ctx.add(f'M:swap:{tag}:vacuity', 'M', 'fault', wit.time, f'invariant sat={wit.verdict}, back edges={n_back}, ok exits={n_ok}', False)
        else:
            ctx.add(f'M:swap:{tag}:vacuity', 'M', 'discharged', wit.time, 'invariant satisfiable; back edge and Ok exit feasible', False)
        ctx.discharge(obls, cap=ctx.cap(60, 300))
    return tag, task


def _pc_before(p, st):
    """path condition (whole path: sound, since assumptions are cumulative and the precondition only mentions earlier values)"""
    return p.pc


def exit_state(w, ret, p, fr_h, g1):
    """(price, ghosts, fee_sum, protocol_fee, liquidity, tick) at loop exit — when the loop exits directly from the header these are the
    header values; the returned struct carries them, so read them back from it where the code copies them verbatim"""
    u = ret.fields[0]
    if isinstance(u, M.Boxed): u = u.val
    # fee_sum is not returned: lp_fee = fee_sum - protocol_fee was computed by the code; recover fee_sum from the frame of the exit path
    fr = getattr(ret, 'frame', None)
    return (w.t(fr_h, 'curr_sqrt_price'), g1, w.t(fr_h, 'fee_sum'), w.t(fr_h, 'curr_protocol_fee'), w.t(fr_h, 'curr_liquidity'), w.t(fr_h, 'curr_tick_index'))


def run(ctx):
    ctx.mir()
    tasks = []
    for exact_in in (True, False):
        for a_to_b in (True, False):
            for lm in ('explicit', 'none'):
                tasks.append(config_task(exact_in, a_to_b, lm, 0))
    # (ii) handler glue: thresholds and pass-through of the trader's arguments, v1 and v2, single and two-hop (handler mode, shared with C17)
    from props import c17
    tasks += [('handler:single', c17.single_task(False)), ('handler:single_v2', c17.single_task(True)),
              ('handler:two_hop', c17.two_hop_task(False)), ('handler:two_hop_v2', c17.two_hop_task(True))]
    # adaptive-fee pools: wiring of the manager calls per inner iteration from arbitrary loop states (abstract manager; props/c14w.py)
    from props import c14w
    tasks += c14w.tasks()
    ctx.parallel(tasks, max_procs=8)
    ctx.run_kani(['c03.rs'])


# =============================================================================== native confirmation of solver models
def _nat(fn, *a):
    from vlib import replay_m
    return replay_m.native(fn, list(a), 'debug')


def _nat_int(fn, *a):
    out = _nat(fn, *a)
    if out is None or not out.startswith('Ok'): return None
    return [int(x) for x in out.split()[1:]]


def reference_swap(st, amount, limit, exact_in, a_to_b, ticks):
    """independent reference of the swap loop (static fee) over the REAL leaf functions (compute_swap, tick math, calculate_fees),
    with the initialized ticks given as a dict tick -> liquidity_net and unlimited arrays. Returns dict or ('Err', why)."""
    P = lambda t: _nat_int('sqrt_price_from_tick_index', max(MIN_TICK, min(MAX_TICK, t)))[0]
    lim = limit if limit else (MINP if a_to_b else MAXP)
    rem, calc, price, tick, liq = amount, 0, st['sqrt_price'], st['tick'], st['liquidity']
    pfee, fsum, growth = 0, 0, st['fgg_a'] if a_to_b else st['fgg_b']
    crossed = []
    for _ in range(12):
        if rem == 0 or price == lim: break
        cands = [t for t in ticks if (t <= tick if a_to_b else t > tick)]
        tn = (max(cands) if a_to_b else min(cands)) if cands else None
        if tn is None: return ('Err', 'no further initialized tick in the replay world')
        ptn = P(tn)
        tgt = max(ptn, lim) if a_to_b else min(ptn, lim)
        r = _nat_int('compute_swap', rem, st['fee_rate'], liq, price, tgt, 1 if exact_in else 0, 1 if a_to_b else 0)
        if r is None: return ('Err', 'step failed')
        ain, aout, nxt, fee = r
        if exact_in: rem -= ain + fee; calc += aout
        else: rem -= aout; calc += ain + fee
        if rem < 0 or calc > U64: return ('Err', 'amount overflow')
        fsum += fee
        fr = _nat_int('calculate_fees', fee, st['protocol_fee_rate'], liq, pfee, growth)
        pfee, growth = fr
        if nxt == ptn:
            liq = liq - ticks[tn] if a_to_b else liq + ticks[tn]
            if liq < 0 or liq > U128: return ('Err', 'liquidity')
            crossed.append(tn)
            tick = tn - 1 if a_to_b else tn
        elif nxt != price:
            tick = _nat_int('tick_index_from_sqrt_price', nxt)[0]
        price = nxt
    else:
        return ('Err', 'too many steps')
    if rem > 0 and not exact_in and not limit: return ('Err', 'PartialFill')
    used = amount - rem
    a, b_ = (used, calc) if a_to_b == exact_in else (calc, used)
    return dict(amount_a=a, amount_b=b_, lp_fee=fsum - pfee, next_liquidity=liq, next_tick=tick, next_sqrt_price=price,
                next_fee_growth=growth, next_protocol_fee=pfee, crossed=crossed, fee_sum=fsum)


def native_confirm(w, env, events, from_entry):
    """concretise a solver model into real pool states around it and compare the REAL swap() with the reference loop and the
    C03 post-conditions; returns (verdict, info)"""
    def ev(t, default=0):
        try: return T.evaluate(t, env)
        except Exception: return default
    g = lambda n, d=0: env.get(n, d) if env.get(n) is not None else d
    spacing = max(1, g('tick_spacing', 1))
    if from_entry:
        tc, liq, amt = g('tick_current', 0), g('liquidity', 1 << 40), g('amount', 1000)
    else:
        tc, liq, amt = g('h_curr_tick_index', 0), g('h_curr_liquidity', 1 << 40), g('h_amount_remaining', 1000)
    tc = max(MIN_TICK, min(MAX_TICK - 1, tc))
    fee_rate, pfr = g('fee_rate', 3000), g('protocol_fee_rate', 300)
    ticks = {}
    for e_ in events:
        if e_[1] == 'get_tick':
            tk = ev(e_[3]); net = ev(e_[5], 1000)
            ticks[tk - tk % spacing] = net if net else 1000
        if e_[1] == 'search':
            tk = ev(e_[3])
            ticks.setdefault(tk - tk % spacing, 1000 if w.a_to_b else -1000)
    wt = g('w_init_tick', None)
    if wt is not None: ticks.setdefault(wt - wt % spacing, 777 if w.a_to_b else -777)
    span = 88 * spacing
    lo_arr = (tc // span) * span
    # keep ticks inside the three arrays of the replay world and add a far tick so that swaps have somewhere to stop
    def inside(t):
        return (lo_arr - 2 * span <= t <= tc) if w.a_to_b else (tc < t < lo_arr + 3 * span)
    ticks = {t: n for t, n in ticks.items() if inside(t) and MIN_TICK <= t <= MAX_TICK}
    far = (lo_arr - 2 * span) if w.a_to_b else (lo_arr + 3 * span - spacing)
    if MIN_TICK <= far <= MAX_TICK: ticks.setdefault(far, 5 if w.a_to_b else -5)
    if not ticks: return 'none', 'no realizable tick configuration'
    pc_, pn_ = _nat_int('sqrt_price_from_tick_index', tc)[0], _nat_int('sqrt_price_from_tick_index', tc + 1)[0]
    prices = [pc_, (pc_ + pn_) // 2, pn_ - 1, pn_]
    tl = sorted(ticks)
    near = [t for t in tl if (t <= tc if w.a_to_b else t > tc)]
    tn1 = (max(near) if w.a_to_b else min(near)) if near else None
    limits = [0]
    if w.limit_mode != 'none':
        limits = []
        for t in ([tn1] if tn1 is not None else []) + tl[:2]:
            p = _nat_int('sqrt_price_from_tick_index', t)[0]
            limits += [p, p + 1, p - 1]
        limits += [MINP if w.a_to_b else MAXP]
    amts = sorted({max(1, amt), 1, 1000, 1 << 20, 1 << 40, (1 << 63) + 12345})
    liqs = sorted({max(1, liq), 1 << 32, 1 << 64})
    tried = 0
    from vlib import replay_m
    import subprocess, itertools
    exe = replay_m.build('debug')
    fees = [(fee_rate, pfr)] + [x for x in ((3000, 300), (60000, 2500), (1, 1)) if x != (fee_rate, pfr)]
    if w.limit_mode != 'none':
        # also limits on the WRONG side of / equal to the current price (the real swap must reject them) and the model's own limit
        ml = g('limit', None)
        limits = ([ml] if ml else []) + [pc_ + 1, (pc_ + pn_) // 2 - 1, pn_ - 1] + limits
    combos = [(f, L, sp, lm, a) for f in fees for L in liqs for sp in prices for lm in limits for a in amts]
    for (fr_, pf_), L, sp, lm, a in combos[:600]:
        args = [sp, tc, L, spacing, fr_, pf_, g('fgg_a', 0), g('fgg_b', 0), a, lm, 1 if w.exact_in else 0, 1 if w.a_to_b else 0, 0] + \
               [f'{t}:{n}' for t, n in sorted(ticks.items())]
        out = subprocess.run([exe, 'swap'] + [str(x) for x in args], capture_output=True, text=True, timeout=60).stdout.strip()
        tried += 1
        cmd = 'mreplay swap ' + ' '.join(str(x) for x in args)
        if out == 'Panic':
            return 'violates', f'{cmd} -> panic'
        if not out.startswith('Ok'): continue
        v = [int(x) for x in out.split()[1:]]
        real = dict(amount_a=v[0], amount_b=v[1], lp_fee=v[2], next_liquidity=v[3], next_tick=v[4], next_sqrt_price=v[5], next_fee_growth=v[6], next_protocol_fee=v[7])
        bad = check_real(w, real, dict(sqrt_price=sp, tick=tc, liquidity=L, fee_rate=fr_, protocol_fee_rate=pf_, fgg_a=g('fgg_a', 0), fgg_b=g('fgg_b', 0)), a, lm, ticks)
        if bad:
            return 'violates', f'{cmd} -> {out}: {bad}'
    return 'holds', f'{tried} concrete pool states around the model: the real swap() agrees with the reference loop and the post-conditions'


def check_real(w, real, st, amount, limit, ticks):
    inp, out = (real['amount_a'], real['amount_b']) if w.a_to_b else (real['amount_b'], real['amount_a'])
    lim = limit if limit else (MINP if w.a_to_b else MAXP)
    used = inp if w.exact_in else out
    if used > amount: return 'P1: more than the specified amount'
    nsp = real['next_sqrt_price']
    if limit and ((w.a_to_b and limit > st['sqrt_price']) or (not w.a_to_b and limit < st['sqrt_price'])):
        return 'E1: a price limit on the wrong side of the current price was accepted'
    if w.a_to_b and not (lim <= nsp <= st['sqrt_price']): return 'P2: price beyond limit / wrong direction'
    if not w.a_to_b and not (st['sqrt_price'] <= nsp <= lim): return 'P2: price beyond limit / wrong direction'
    if used < amount and nsp != lim: return 'P3: partial fill away from the limit'
    if not w.exact_in and not limit and out != amount: return 'P4: exact-out without limit not filled'
    ref = reference_swap(st, amount, limit, w.exact_in, w.a_to_b, ticks)
    if isinstance(ref, tuple): return f'reference loop fails ({ref[1]}) where the real swap succeeds'
    for k in ('amount_a', 'amount_b', 'lp_fee', 'next_liquidity', 'next_tick', 'next_sqrt_price', 'next_fee_growth', 'next_protocol_fee'):
        if real[k] != ref[k]: return f'{k}: real {real[k]} != reference {ref[k]} (reference crossed ticks {ref["crossed"]}, fee sum {ref["fee_sum"]})'
    return None
