"""Engine-M task lists that complement the Kani harness files of C05, C07, C10, C11, C15 (the property drivers call these from run())."""
from props import c02, c03, c17, hm


def swap_loop(configs=((True, True), (True, False), (False, True), (False, False)), limit='explicit'):
    """Floyd verification of swap_manager::swap (shared with C03): crossing exactness X*, fee/reward wiring W*, accounting I5/P5"""
    return [c03.config_task(ei, ab, limit, 0) for ei, ab in configs]


def leaf(names):
    return [t for t in c02.leaf_tasks() if t[0] in names]


def c05_tasks():
    # (b)/(c): liquidity changes only by +-liquidity_net of the searched initialized tick, each crossed once, in order (X1-X6, `cross` events)
    return swap_loop()


def c07_tasks():
    # payout of fees = exactly fee_owed, reset (handler mode); credit arithmetic floor(L*delta/2^64) (leaf); crossing flips `outside` against the growth updated so far (W4)
    return [('collect_fees', hm.collect_fees_task(False)), ('collect_fees_v2', hm.collect_fees_task(True))] + leaf(('leaf:mul_shift_right',)) + swap_loop()


def c10_tasks():
    # (c) loop level: exactly the searched initialized ticks are updated, each once, in price order; array index advances only at an edge
    return swap_loop() + swap_loop(limit='none')


def c11_tasks():
    ts = []
    for v2 in (False, True):
        for idx in (0, 1, 2, 3):
            ts.append((f"collect_reward{'_v2' if v2 else ''}:{idx}", hm.collect_reward_task(v2, idx)))
        for idx in (0, 1, 2):
            ts.append((f"set_reward_emissions{'_v2' if v2 else ''}:{idx}", hm.set_reward_emissions_task(v2, idx)))
    # accrual arithmetic floor(dt*e/L) and credit floor(L*delta/2^64) (leaves); crossings use the reward growths accrued to now (W5/P7)
    ts.append(('update_emissions', hm.update_emissions_task))      # the state method behind set_reward_emissions: settles ALL rewards, then changes one rate
    return ts + leaf(('leaf:mul_div', 'leaf:mul_shift_right')) + swap_loop()


def c15_tasks():
    # two-hop: distinct pools, shared intermediate mint; swap handlers' account pass-through (handler mode, shared with C17)
    return [('handler:two_hop', c17.two_hop_task(False)), ('handler:two_hop_v2', c17.two_hop_task(True))]
