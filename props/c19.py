"""C19 — pools exist only with in-bound parameters and over supported token mints (Engine K)."""
ID = 'C19'
LEVEL = 'model_checking'
TECHNIQUE = ('bounded model checking of the compiled code (Kani/CBMC; SAT, z3 for the adaptive-constants rule): every state '
             'writer of a bounded field over fully symbolic arguments, Anchor try_accounts + handlers for the setter '
             'instructions, and the Token-2022 mint admission functions on real AccountInfo / InterfaceAccount<Mint> images '
             'compared with a reference TLV walk and a reference admission rule written in the harness')
FUNCTIONS = [
    'state::whirlpool::Whirlpool::{initialize, update_fee_rate, update_protocol_fee_rate}',
    'state::config::WhirlpoolsConfig::{initialize, update_default_protocol_fee_rate, update_*_authority, update_feature_flags}',
    'state::fee_tier::FeeTier::{initialize, update_default_fee_rate}',
    'state::adaptive_fee_tier::AdaptiveFeeTier::{initialize, update_default_base_fee_rate, update_adaptive_fee_constants, update_*_authority}',
    'state::oracle::{AdaptiveFeeConstants::validate_constants, Oracle::initialize, Oracle::initialize_adaptive_fee_constants}',
    'instructions::{set_fee_rate, set_protocol_fee_rate, set_default_fee_rate, initialize_fee_tier}::handler (+ derived Accounts::try_accounts)',
    'instructions::adaptive_fee::{set_fee_rate_by_delegated_fee_authority, set_adaptive_fee_constants}::handler (+ try_accounts)',
    'util::v2::token::{get_token_extension_types (via verif wrapper), is_supported_token_mint, is_token_badge_initialized, verify_supported_token_mint}',
    'spl_token_2022::extension::StateWithExtensions::<Mint>::{unpack, get_extension_types, get_extension::<DefaultAccountState>} (dependency, executed)',
    'anchor_lang InterfaceAccount<Mint>::try_from, Account<T>::try_from, TokenBadge::try_deserialize (dependency, executed)',
]
BOUNDS = [
    'state writers: every argument and every pre-state field that matters fully symbolic (u16/u32/u128/32-byte keys); no loop bound involved',
    'Whirlpool::initialize: tick_spacing != 0 assumed (the code panics with unreachable!() otherwise = transaction abort; both callers pass a FeeTier / AdaptiveFeeTier tick_spacing, proven non-zero by the tier harnesses)',
    'get_token_extension_types vs reference walk: every TLV area of 0..=10 (quick; <= 2 entries) / 0..=12 (thorough; <= 3 entries) fully symbolic bytes: known and unknown type numbers, fitting and overrunning lengths, all truncated tails',
    'is_supported_token_mint: real 166+T byte mint image; quick: 2 entries with lengths [1,0] + 3 symbolic tail bytes; thorough: 4 entries [1,0,2,0] + 3 tail bytes, a 12-byte fully symbolic TLV area (symbolic lengths, <= 3 entries), and the reference walk against the spl-token-2022 get_extension_types iterator on the 4-entry layout; in the pinned-length layouts type numbers (all 65536), values, tail, mint key (incl. native-2022), authorities and the badge flag are symbolic; freeze authority present/absent and owner Token/Token-2022 are separate harnesses',
    'token badge account: 80 data bytes (a TokenBadge uses 73), owner / config / mint keys symbolic',
    'handler spot checks: account data sizes = the real LEN of each account type; the pool is observed as the deserialized Account<Whirlpool> the handler mutated (Anchor exit serialization not re-run)',
]
ASSUMPTIONS = [
    'error conversions replaced by code-preserving stubs; message formatting stubbed',
    'tick_index_from_sqrt_price / sqrt_price_from_tick_index replaced by the memo contract stubs T1/T2 (only tick_current_index depends on them; it is not a bounded field of this property)',
    'AdaptiveFeeConstants::validate_constants is executed for real in c19_validate_constants_rules (true => the published rules); in the tier / oracle / handler writer harnesses it is an uninterpreted recording stub and the harness proves "constants are stored only after validate_constants(own tick_spacing, exactly these constants) returned true" (two copies of a 16-bit remainder by a symbolic divisor do not close under SAT)',
    'mint images satisfy what Anchor needs to build InterfaceAccount<Mint> at all: is_initialized = 1, COption tags in {0,1}, zero padding up to offset 165, account type byte = Mint',
    'CBMC loop bound for the C-library memcmp raised to 85 by --unwindset (its trip count is the concrete n: 83-byte padding check, 32-byte keys); all other loops bounded by the harness unwind with unwinding assertions on',
    'supported / badge-gated extension lists of the reference rule are taken from the code comments of is_supported_token_mint (the property text does not enumerate the supported list)',
]
OUTSIDE = [
    'writers reached only through instructions without a harness: initialize_config, initialize_pool / initialize_pool_v2 / initialize_pool_with_adaptive_fee, initialize_adaptive_fee_tier, set_default_protocol_fee_rate, set_default_base_fee_rate, set_preset_adaptive_fee_constants, initialize_reward(_v2) handlers (System / Token program CPIs and `init`); their state methods and the mint gate verify_supported_token_mint are covered, the argument wiring of these handlers is by reading',
    'that the badge account passed to the gate is the PDA ["token_badge", config, mint] is an Anchor seeds= constraint (sha256 + curve check not executed symbolically)',
    'TLV data beyond the entry bounds above (more than 4 entries; symbolic lengths beyond 12 bytes of TLV area)',
    'reachability of the price bounds by swaps (sqrt_price after a swap stays within [MIN, MAX]) is decided by the MIR engine on `swap` (C03)',
    'account bytes unchanged on failure is a runtime guarantee (transaction abort), asserted here only where the state method itself promises it',
    'Anchor exit serialization of the mutated accounts (generic borsh derive)',
]
EXPLANATION = ('every writer of fee_rate / protocol_fee_rate / default rates / adaptive constants / sqrt_price / tick_spacing / mints '
               'goes through a bound check that matches the published limits; mint admission is exactly the allow-list rule with '
               'badge-gated entries, and the badge must be program-owned and match config and mint')


def run(ctx):
    ctx.run_kani(['c19.rs'])
