"""C09 — tick index and sqrt-price convert consistently over the whole supported range (Engine M for all ticks, Engine K on blocks)."""
import time, os, re
from vlib import term as T, mirsmt as M, specs as SP
from vlib.term import C, TRUE, FALSE
from vlib.mirsmt import I, B, S, E, Path, Panic, U256

ID = 'C09'
LEVEL = 'model_checking'
TECHNIQUE = ('symbolic execution of the rustc MIR of sqrt_price_from_tick_index (19 if-diamonds merged with ite, tick bits symbolic) into integer SMT, z3 5.1: '
             'strict monotonicity on ALL ticks by a split on the position of the lowest zero bit, with per-stage gap lemmas proved first and instantiated as hints; '
             'per-step ratio | p(t+1)/p(t) - sqrt(1.0001) | <= 2^-32 on ALL ticks with price >= 1.001 * 2^32 by integer ratio bounds Lo*a <= 2^96*b <= Hi*a propagated stage by stage '
             '(each stage one linear-integer query; reference factor floor(sqrt(1.0001)*2^96) computed independently); '
             'Kani/CBMC on blocks of consecutive ticks for the inverse function, and for the ratio on the 32 lowest ticks')
FUNCTIONS = ['math::tick_math::sqrt_price_from_tick_index', 'math::tick_math::get_sqrt_price_positive_tick', 'math::tick_math::get_sqrt_price_negative_tick',
             'math::tick_math::mul_shift_96', 'math::tick_math::tick_index_from_sqrt_price (blocks, Engine K)']
BOUNDS = ['forward direction: every tick in [-443636, 443636] (no bound: 2 x 19 structured queries cover all 887 273 ticks)',
          'per-step ratio: every step t -> t+1 with p(t) >= 1.001 * 2^32 (all but the 20 lowest ticks) by Engine M; the 32 lowest ticks by a Kani block; seam -1 -> 0 -> 1 as constants',
          'inverse direction: blocks of 16 (quick) / 64 (thorough) consecutive ticks at MIN, 0, MAX and around +-2^k, k = 4, 8, 12, 16, 18 (Engine K): tick(p(t)) = t, tick(p(t)-1) = t-1, tick(p(t)+1) = t']
ASSUMPTIONS = ['K1: mul_u256(a,b) = a*b; U256Muldiv::shift_right(n) = floor(x / 2^n); try_into_u128 fails iff >= 2^128 (Kani kernel harnesses)',
               'MIR of the nightly compiler agrees with the SBF build on safe integer code']
OUTSIDE = ['tick_index_from_sqrt_price on sqrt-prices outside the checked blocks (T2 stays an assumption where other properties use it)',
           'tick_index_from_sqrt_price away from tick boundaries (interior prices) and at boundaries outside the blocks: the 14 data-dependent 64x64-bit squarings are beyond both back ends for symbolic prices '
           '(a 512-tick block costs CBMC ~700 s; all 887 273 boundaries would need ~90 CPU-hours)']
EXPLANATION = ('t and t+1 share the bits above the lowest zero bit j of t; below it they are 1..10 and 0..01. Both prices are the same chain of conditional floor-'
               'multiplications applied to two constants A_j < B_j (obtained by constant folding of the MIR-derived term); each stage keeps (positive side) or scales '
               '(negative side) the gap, which is the per-stage lemma')

MIN_TICK, MAX_TICK = -443636, 443636
NBITS = 19


def bits_term(fixed, syms):
    """integer term sum of bit k: fixed[k] in (0,1) or symbolic Bool syms[k]"""
    parts = []
    const = 0
    for k in range(NBITS):
        if k in fixed:
            const |= fixed[k] << k
        else:
            parts.append(T.ite(syms[k], C(1 << k), C(0)))
    return T.add(C(const), *parts) if parts else C(const)


def install(e):
    def mul_shift_96(e_, callee, args, path):
        a, b = e_.deref(args[0]).t, e_.deref(args[1]).t
        prod = T.mul(a, b)
        fact = T.cmp('<', prod, C(1 << 224))
        yield Path(path.pc, path.trace + [('event', 'nopanic', 'mul_shift_96 result fits u128', fact)]), I(T.div(prod, C(1 << 96)), 'u128')
    e.summaries.append((re.compile(r'(^|::)mul_shift_96$'), mul_shift_96))


def run_price(e, tick_term, pre):
    outs = list(e.run('tick_math::sqrt_price_from_tick_index', [I(tick_term, 'i32')], Path(list(pre))))
    return outs


def stage_pairs(ta, tb):
    """walk two MIR-derived price terms in lockstep and return the list of corresponding (stage term of a, stage term of b) pairs"""
    pairs = []
    seen = set()
    def walk(x, y):
        if (id(x), id(y)) in seen: return
        seen.add((id(x), id(y)))
        if x[0] != y[0] or len(x) != len(y): return
        if x[0] == 'ite' and x[1] == y[1]:
            pairs.append((x, y))
        for u, v in zip(x[1:], y[1:]):
            if isinstance(u, tuple) and isinstance(v, tuple): walk(u, v)
    walk(ta, tb)
    return pairs


# ---------------------------------------------------------------------------------------------- per-step ratio on ALL ticks
import math
K_REF = math.isqrt((10001 << 192) // 10000)          # floor(sqrt(1.0001) * 2^96): independent reference for the per-step factor
W96 = 1 << 96
PMIN_NEG = ((1 << 32) * 1001) // 1000                # the all-ticks ratio claim is made for ticks whose price is at least 1.001 * 2^32 (all but the 20 lowest ticks: the last
                                                      # floor of the negative chain costs up to one unit = 2^-32 relative at price 2^32; those ticks are decided by the Kani block at MIN_TICK)


def ratio_bounds(a, b):
    """(lo, hi, amin): integer bounds lo*a <= 2^96*b <= hi*a over all branches of two starting values that are constants or ite-of-constants under the same conditions"""
    if T.is_c(a) and T.is_c(b):
        return (W96 * b[1]) // a[1], -((-W96 * b[1]) // a[1]), a[1]
    if a[0] == 'ite' and b[0] == 'ite' and a[1] == b[1]:
        r1, r0 = ratio_bounds(a[2], b[2]), ratio_bounds(a[3], b[3])
        if r1 is None or r0 is None: return None
        return min(r1[0], r0[0]), max(r1[1], r0[1]), min(r1[2], r0[2])
    return None


def ratio_obligations(sign, j, stages, ft, fu, pc, sy):
    """Obligations that establish, stage by stage, integer bounds Lo*a <= 2^96*b <= Hi*a between the chain of the lower tick (a) and of the upper tick (b),
    widened at each conditional floor-multiplication by the exact effect of the two truncations, and finally | 2^96*p(t+1) - K*p(t) | <= 2^64 * p(t)."""
    sg = 'pos' if sign > 0 else 'neg'
    obls = []
    lower_final, upper_final = (ft, fu) if sign > 0 else (fu, ft)
    def final_goal(pa, pb):
        d = T.sub(T.mul(C(W96), pb), T.mul(C(K_REF), pa))
        bound = T.mul(C(1 << 64), pa)
        return T.and_(T.cmp('<=', d, bound), T.cmp('<=', T.sub(C(0), d), bound))
    hyp = [T.cmp('>=', lower_final, C(PMIN_NEG))] if sign < 0 else []
    note_final = ('| p(t+1)/p(t) - sqrt(1.0001) | <= 2^-32 for every t whose lowest zero bit (of |t| on the negative side) is bit %d' % j) + \
                 (' and whose price is at least %d' % PMIN_NEG if sign < 0 else '')
    if not stages:
        o = M.Obligation(f'ratio:{sg}:chain:j={j}', pc + hyp, final_goal(lower_final, upper_final), note=note_final + ' (no symbolic stage: both prices are constants)')
        o.replay = dict(custom=ratio_replay(sign, j, sy)); obls.append(o)
        return obls
    def ab(k):
        _, x, y = stages[k]
        return (x, y) if sign > 0 else (y, x)
    a0, b0 = ab(0)
    rb = ratio_bounds(a0[3], b0[3])
    if rb is None: return obls
    Lo, Hi, Amin = rb
    def inv(a, b, lo, hi, amin):
        return T.and_(T.cmp('<=', T.mul(C(lo), a), T.mul(C(W96), b)), T.cmp('<=', T.mul(C(W96), b), T.mul(C(hi), a)), T.cmp('>=', a, C(amin)))
    prev = inv(a0[3], b0[3], Lo, Hi, Amin)
    o = M.Obligation(f'ratio:{sg}:j={j}:stage_init', pc, prev, note=f'starting values: {Lo} * a <= 2^96 * b <= {Hi} * a, a >= {Amin}'); o.replay = None; obls.append(o)
    for k in range(len(stages)):
        a, b = ab(k)
        cst, w = a[2][1][1][1], a[2][2][1]
        last = (k == len(stages) - 1)
        amin2 = min(Amin, (Amin * cst) // w)
        extra = []
        if sign < 0 and last:
            amin2 = max(amin2, PMIN_NEG); extra = hyp       # the output of the last stage is the price itself
        lo2, hi2 = Lo - (-((-W96) // amin2)), Hi + (-((-Hi) // amin2))
        goal = inv(a, b, lo2, hi2, amin2)
        o = M.Obligation(f'ratio:{sg}:j={j}:stage{k}', pc + [prev] + extra, goal,
                         note=f'conditional floor-multiplication by {cst}/{w}: bounds widen by at most ceil(2^96/{amin2}) below and ceil(Hi/{amin2}) above')
        o.replay = None; obls.append(o)
        prev, Lo, Hi, Amin = goal, lo2, hi2, amin2
    a, b = ab(len(stages) - 1)
    if sign > 0:
        # final `>> 32`: p = floor(ratio / 2^32)
        assert lower_final[0] == 'div' and T.is_c(lower_final[2]) and lower_final[2][1] == (1 << 32), lower_final[:1]
        amin2 = Amin >> 32
        lo2, hi2 = Lo - (-((-W96) // amin2)), Hi + (-((-Hi) // amin2))
        goal = inv(lower_final, upper_final, lo2, hi2, amin2)
        o = M.Obligation(f'ratio:{sg}:j={j}:final_shift', pc + [prev], goal, note='p = ratio >> 32 on both chains'); o.replay = None; obls.append(o)
        prev, Lo, Hi, Amin = goal, lo2, hi2, amin2
    o = M.Obligation(f'ratio:{sg}:chain:j={j}', pc + [prev] + hyp, final_goal(lower_final, upper_final),
                     note=note_final + f'; established bounds {Lo} <= 2^96 * p(t+1)/p(t) <= {Hi}, reference K = {K_REF}')
    o.replay = dict(custom=ratio_replay(sign, j, sy)); obls.append(o)
    return obls


def ratio_replay(sign, j, sy):
    def custom(env):
        from vlib import replay_m
        m = sum(1 << i for i in range(j)) + sum((1 << k) for k, v in sy.items() if env.get(v[1]))
        lo_t, hi_t = (m, m + 1) if sign > 0 else (-(m + 1), -m)
        a = replay_m.native('sqrt_price_from_tick_index', [lo_t]); b = replay_m.native('sqrt_price_from_tick_index', [hi_t])
        pa, pb = int(a.split()[1]), int(b.split()[1])
        d = abs(W96 * pb - K_REF * pa)
        if d <= (pa << 64): return 'holds', f'p({lo_t})={pa}, p({hi_t})={pb}: within 2^-32'
        return 'violates', f'sqrt_price_from_tick_index({hi_t}) / sqrt_price_from_tick_index({lo_t}) = {pb}/{pa} differs from sqrt(1.0001) by more than 2^-32 (|2^96*p1 - K*p0| = {d} > 2^64*p0)'
    return custom


def mono_task(sign, jlist):
    def task(ctx):
        T.reset()
        e = M.Engine(ctx.mir(), prune_ms=2000)
        e.merge = True
        install(e)
        obls = []
        # ---- generic stage lemmas, one per constant that appears in the function (read off the MIR-derived term of an all-symbolic tick)
        syms = {k: T.bvar(f'x{k}') for k in range(NBITS)}
        m_all = bits_term({}, syms)
        tick_all = m_all if sign > 0 else T.sub(C(0), m_all)
        pre_all = [T.cmp('<=', m_all, C(MAX_TICK))] + ([T.cmp('>=', m_all, C(1))] if sign < 0 else [])
        outs = run_price(e, tick_all, pre_all)
        outs = [(p, r) for p, r in outs if not isinstance(r, Panic)]
        if len(outs) != 1:
            raise M.BoundExceeded(f'expected one merged path, got {len(outs)}')
        p_all, r_all = outs[0]
        consts = []
        def find(t):
            if t[0] == 'div' and t[1][0] == '*' and T.is_c(t[1][1]) and T.is_c(t[2]):
                consts.append((t[1][1][1], t[2][1]))
            for x in t[1:]:
                if isinstance(x, tuple): find(x)
        find(r_all.t)
        consts = sorted(set(consts))
        ctx.extra['stage_constants'] = len(consts)
        lem = {}
        for cst, w in consts:
            if w == (1 << 32) and cst == 1: continue
            a = T.var(f'a_{len(lem)}', 0, 2**128 - 1); b = T.var(f'b_{len(lem)}', 0, 2**128 - 1)
            cb = T.bvar(f'c_{len(lem)}')     # the stage is conditional: m(r) = ite(c, floor(r*C/W), r), c arbitrary
            sa, sb = T.ite(cb, T.div(T.mul(C(cst), a), C(w)), a), T.ite(cb, T.div(T.mul(C(cst), b), C(w)), b)
            if cst >= w:
                goal = T.cmp('>=', T.sub(sb, sa), T.sub(b, a))
            else:
                goal = T.cmp('>=', T.mul(C(w), T.sub(sb, sa)), T.add(T.sub(T.mul(T.sub(b, a), C(cst)), C(w)), C(1)))
            o = M.Obligation(f'mono:{"pos" if sign > 0 else "neg"}:stage_lemma:{cst}', [T.cmp('<', a, b)], goal); o.replay = None
            obls.append(o); lem[(cst, w)] = True
        # ---- no panic / no wrap in any stage, for every tick of this sign
        for k, ev in enumerate([ev for ev in p_all.trace if ev[1] in ('nopanic', 'nowrap')]):
            o = M.Obligation(f'mono:{"pos" if sign > 0 else "neg"}:no_{ev[1][2:]}:{k}', p_all.pc, ev[3], note=ev[2])
            o.replay = dict(custom=panic_replay(sign, syms))
            obls.append(o)
        # ---- chain queries
        for j in jlist:
            if j >= NBITS: continue
            fx_t = {i: 1 for i in range(j)}; fx_t[j] = 0
            fx_u = {i: 0 for i in range(j)}; fx_u[j] = 1
            sy = {k: T.bvar(f'y{j}_{k}') for k in range(j + 1, NBITS)}
            mt, mu = bits_term(fx_t, sy), bits_term(fx_u, sy)      # mu = mt + 1
            pre = [T.cmp('<=', mu, C(MAX_TICK))]
            if sign < 0: pre.append(T.cmp('>=', mt, C(1)))
            tt, tu = (mt, mu) if sign > 0 else (T.sub(C(0), mt), T.sub(C(0), mu))
            ot = [(p, r) for p, r in run_price(e, tt, pre) if not isinstance(r, Panic)]
            ou = [(p, r) for p, r in run_price(e, tu, pre) if not isinstance(r, Panic)]
            if len(ot) != 1 or len(ou) != 1:
                raise M.BoundExceeded(f'j={j}: expected one merged path per tick, got {len(ot)}/{len(ou)}')
            (pt, rt), (pu, ru) = ot[0], ou[0]
            ft, fu = rt.t, ru.t
            sg = 'pos' if sign > 0 else 'neg'
            depth_memo = {}
            def depth(t):
                if t[0] in ('c', 'v', 'bv', 'true', 'false'): return 0
                k = id(t)
                if k not in depth_memo: depth_memo[k] = 1 + max([depth(x) for x in t[1:] if isinstance(x, tuple)] + [0])
                return depth_memo[k]
            stages = []
            for x, y in stage_pairs(ft, fu):
                sa = x[2]
                if not (sa[0] == 'div' and sa[1][0] == '*' and T.is_c(sa[1][1])): continue
                if (sa[1][1][1], sa[2][1]) not in lem: continue
                stages.append((depth(x), x, y))
            stages.sort(key=lambda s_: s_[0])
            rel_hints, num_hint, G = [], None, None
            ok_chain = True
            for k, (_, x, y) in enumerate(stages):
                ra, rb = x[3], y[3]
                cst, w = x[2][1][1][1], x[2][2][1]
                lo_, hi_ = (ra, rb) if sign > 0 else (rb, ra)
                sl, sh = (x, y) if sign > 0 else (y, x)
                if cst >= w:
                    inst = T.cmp('>=', T.sub(sh, sl), T.sub(hi_, lo_))
                else:
                    inst = T.cmp('>=', T.mul(C(w), T.sub(sh, sl)), T.add(T.sub(T.mul(T.sub(hi_, lo_), C(cst)), C(w)), C(1)))
                inst = T.implies(T.cmp('<', lo_, hi_), inst)
                rel_hints.append(inst)
                if G is None:
                    def gap_min(a, b):
                        if T.is_c(a) and T.is_c(b): return b[1] - a[1]
                        if a[0] == 'ite' and b[0] == 'ite' and a[1] == b[1]:
                            g1, g0 = gap_min(a[2], b[2]), gap_min(a[3], b[3])
                            return None if g1 is None or g0 is None else min(g1, g0)
                        return None
                    G = gap_min(lo_, hi_)       # the chains start from constants (low stages are folded): A_j < B_j, possibly under a few already-folded conditions
                    if G is None or G <= 0: ok_chain = False; break
                    prev = T.cmp('>=', T.sub(hi_, lo_), C(G))
                    o = M.Obligation(f'mono:{sg}:j={j}:stage_init:gap>={G}', pt.pc + pu.pc, prev, note='gap between the two folded starting values'); o.replay = None; obls.append(o)
                else:
                    prev = num_hint
                Gn = G if cst >= w else min(G, -((-(G * cst - w + 1)) // w))
                goal_k = T.cmp('>=', T.sub(sh, sl), C(Gn))
                o = M.Obligation(f'mono:{sg}:j={j}:stage{k}:gap>={Gn}', pt.pc + pu.pc + [prev, inst], goal_k,
                                 note=f'gap after this conditional stage (constant {cst}) is at least {Gn} given gap >= {G} before it (instance of the proved stage lemma)')
                o.replay = None; obls.append(o)
                num_hint, G = goal_k, Gn
            goal = T.cmp('<', ft, fu) if sign > 0 else T.cmp('<', fu, ft)
            if ok_chain and num_hint is not None:
                o = M.Obligation(f'mono:{sg}:chain:j={j}', pt.pc + pu.pc + [num_hint], goal,
                                 note=f'p(t) < p(t+1) for every t whose lowest zero bit is bit {j}: final gap >= {G}, established stage by stage ({len(stages)} stages)')
            else:
                o = M.Obligation(f'mono:{sg}:chain:j={j}', pt.pc + pu.pc + rel_hints, goal, note='monolithic chain query with stage-lemma instances as hints')
            o.replay = dict(custom=mono_replay(sign, j, sy))
            obls.append(o)
            obls.extend(ratio_obligations(sign, j, stages if ok_chain else [], ft, fu, pt.pc + pu.pc, sy))
            if ctx.tier == 'thorough':
                o = M.Obligation(f'mono:{sg}:chain_monolithic:j={j}', pt.pc + pu.pc + rel_hints, goal, note='cross-check: one query over the whole chain with relative stage-lemma instances')
                o.replay = dict(custom=mono_replay(sign, j, sy)); obls.append(o)
        for o in obls: o.abstract_div = True
        ctx.functions.update(e.executed)
        ctx.discharge(obls, cap=ctx.cap(300, 900))
    return task


def mono_replay(sign, j, sy):
    def custom(env):
        from vlib import replay_m
        m = sum(1 << i for i in range(j)) + sum((1 << k) for k, v in sy.items() if env.get(v[1]))
        t, u = (m, m + 1) if sign > 0 else (-m, -(m + 1))
        a = replay_m.native('sqrt_price_from_tick_index', [t]); b = replay_m.native('sqrt_price_from_tick_index', [u])
        pa, pb = int(a.split()[1]), int(b.split()[1])
        lo, hi = (pa, pb) if sign > 0 else (pb, pa)
        if lo < hi: return 'holds', f'p({t})={pa}, p({u})={pb}'
        return 'violates', f'sqrt_price_from_tick_index({min(t, u)}) = {lo} >= sqrt_price_from_tick_index({max(t, u)}) = {hi}: not strictly increasing'
    return custom


def panic_replay(sign, syms):
    def custom(env):
        from vlib import replay_m
        m = sum((1 << k) for k, v in syms.items() if env.get(v[1]))
        t = m if sign > 0 else -m
        for prof in ('debug', 'release'):
            out = replay_m.native('sqrt_price_from_tick_index', [t], prof)
            if out == 'Panic': return 'violates', f'{prof}: sqrt_price_from_tick_index({t}) panics (intermediate product does not fit)'
        return 'holds', f'sqrt_price_from_tick_index({t}) = {out}'
    return custom


def endpoint_replay(t, expect, rel):
    def custom(env):
        from vlib import replay_m
        out = replay_m.native('sqrt_price_from_tick_index', [t])
        v = int(out.split()[1]) if out and out.startswith('Ok') else None
        ok = v is not None and ((rel == '=' and v == expect) or (rel == '<' and v < expect))
        return ('holds' if ok else 'violates'), f'sqrt_price_from_tick_index({t}) = {out}, required {rel} {expect}'
    return custom


def endpoints_task(ctx):
    """p(MIN_TICK), p(MAX_TICK) equal the published constants; p(-1) < p(0) (the seam between the two chains); twin"""
    T.reset()
    e = M.Engine(ctx.mir())
    e.merge = True
    install(e)
    minp, maxp = e.mir.const('MIN_SQRT_PRICE_X64')[0], e.mir.const('MAX_SQRT_PRICE_X64')[0]
    vals = {}
    for t in (MIN_TICK, MAX_TICK, -1, 0, 1):
        outs = [(p, r) for p, r in run_price(e, C(t), []) if not isinstance(r, Panic)]
        vals[t] = outs[0][1].t
    obls = []
    def cval(t):
        return vals[t][1] if T.is_c(vals[t]) else None
    for key, goal, rp in (('p(MIN_TICK)=MIN_SQRT_PRICE', T.cmp('=', vals[MIN_TICK], C(minp)), endpoint_replay(MIN_TICK, minp, '=')),
                          ('p(MAX_TICK)=MAX_SQRT_PRICE', T.cmp('=', vals[MAX_TICK], C(maxp)), endpoint_replay(MAX_TICK, maxp, '=')),
                          ('seam:p(-1)<p(0)', T.cmp('<', vals[-1], vals[0]), endpoint_replay(-1, cval(0) or (1 << 64), '<')),
                          ('seam:p(0)<p(1)', T.cmp('<', vals[0], vals[1]), endpoint_replay(0, cval(1) or 0, '<')),
                          ('p(0)=2^64', T.cmp('=', vals[0], C(1 << 64)), endpoint_replay(0, 1 << 64, '='))):
        o = M.Obligation('endpoints:' + key, [], goal); o.replay = dict(custom=rp); o.nontrivial = True
        obls.append(o)
    for lo_t in (-2, -1, 0):       # ratio across the seam between the two chains (constants): steps -2 -> -1 (mt = 1 is excluded from the negative j-split), -1 -> 0, 0 -> 1
        if lo_t not in vals:
            outs = [(p, r) for p, r in run_price(e, C(lo_t), []) if not isinstance(r, Panic)]; vals[lo_t] = outs[0][1].t
        pa, pb = vals[lo_t], vals[lo_t + 1]
        d = T.sub(T.mul(C(W96), pb), T.mul(C(K_REF), pa)); bound = T.mul(C(1 << 64), pa)
        o = M.Obligation(f'endpoints:ratio:{lo_t}->{lo_t + 1}', [], T.and_(T.cmp('<=', d, bound), T.cmp('<=', T.sub(C(0), d), bound)),
                         note='| p(t+1)/p(t) - sqrt(1.0001) | <= 2^-32 at the seam'); o.replay = None; o.nontrivial = True
        obls.append(o)
    ctx.functions.update(e.executed)
    ctx.discharge(obls)
    # twin: claiming p(MAX_TICK) = MAX_SQRT_PRICE + 1 must be refuted
    tw = M.Obligation('endpoints:twin', [], T.cmp('=', vals[MAX_TICK], C(maxp + 1)))
    M.discharge([tw], 30, 1, os.path.join(ctx.logdir, 'smt_twin'))
    ctx.add('M:endpoints:twin', 'M', 'discharged' if tw.verdict == 'sat' else 'fault', tw.time, 'wrong endpoint refuted' if tw.verdict == 'sat' else 'twin not refuted', False)


def run(ctx):
    ctx.mir()
    js = list(range(NBITS))
    tasks = [('endpoints', endpoints_task)]
    for sign in (1, -1):
        for chunk in (js[0:3], js[3:7], js[7:12], js[12:19]):
            tasks.append((f'mono:{sign}:{chunk[0]}', mono_task(sign, chunk)))
    ctx.parallel(tasks, max_procs=9)
    ctx.run_kani(['c09.rs'])
