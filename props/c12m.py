"""C12 (Engine M part): tick-offset differential Pinocchio vs Anchor for a SYMBOLIC tick spacing.

The Kani differential (k/src/c12.rs) needs a concrete spacing (CBMC cannot decide `%` and `/` by a symbolic divisor against the manual
shift/subtract division within the budget).  Here both sides are executed from their MIR into integer SMT:

  Pinocchio  TickArray::check_is_usable_tick_and_get_offset   (7-round manual division: shifts of 64*spacing, compare, subtract)
  Anchor     <fixed TickArray as TickArrayType>::get_tick     (in_search_range, Tick::check_is_usable_tick `%`, get_offset `/`, `%`, ticks[offset])

with `start_tick_index` a shared symbolic value and the Anchor `ticks` array the identity array (the value read at a symbolic index is the index).
Every path of the Pinocchio side (the 7 compare/subtract decisions are path decisions, so the offset is a constant on each path) is paired with
every path of the Anchor side.
"""
import re
from vlib import term as T, mirsmt as M
from vlib.term import C, TRUE, FALSE
from vlib.mirsmt import I, B, S, E, Path, Panic, Opaque

MIN_TICK, MAX_TICK = -443636, 443636
PINO = 'pinocchio::state::whirlpool::tick_array::TickArray::check_is_usable_tick_and_get_offset'
ANCHOR = r'state::fixed_tick_array::<impl at [^>]*>::get_tick'


class IdArr:
    """identity array: reading index i yields i (slot identity); used for `ticks` so that the result of get_tick tells which slot was read"""
    def __init__(s, n): s.n = n
    def __repr__(s): return f'IdArr({s.n})'


def product_hints(xs, ts, consts):
    """valid instances of monotonicity of multiplication by ts >= 1, over the monomials x*ts that occur in the obligations (x in xs):
    (sx*x - y >= c  ->  sx*(x*ts) - (y*ts) >= c*ts), the same with <=, and the one-variable forms; z3 then closes the goals in linear arithmetic"""
    hs = []
    for c in consts:
        for x in xs:
            hs.append(T.implies(T.cmp('>=', x, C(c)), T.cmp('>=', T.mul(x, ts), T.mul(C(c), ts))))
            hs.append(T.implies(T.cmp('<=', x, C(c)), T.cmp('<=', T.mul(x, ts), T.mul(C(c), ts))))
        for i, x in enumerate(xs):
            for y in xs[i + 1:]:
                for sx in (1, -1):
                    d = T.sub(T.mul(C(sx), x), y); dp = T.sub(T.mul(C(sx), T.mul(x, ts)), T.mul(y, ts))
                    hs.append(T.implies(T.cmp('>=', d, C(c)), T.cmp('>=', dp, T.mul(C(c), ts))))
                    hs.append(T.implies(T.cmp('<=', d, C(c)), T.cmp('<=', dp, T.mul(C(c), ts))))
    return hs


def offset_task(ctx):
    T.reset()
    e = M.Engine(ctx.mir(), prune_ms=300, max_steps=200000)
    ts = T.var('ts', 1, 65535); tick = T.var('tick', -(1 << 31), (1 << 31) - 1); k = T.var('k', -(1 << 31), (1 << 31) - 1)
    start = T.fresh('start', -(1 << 31), (1 << 31) - 1)
    # an initialised array starts at a multiple of the spacing, not below MIN_TICK - 88*ts (checked at initialisation: C13/C18)
    pre = [T.cmp('=', start, T.mul(k, ts)), T.cmp('<=', start, C(MAX_TICK)), T.cmp('>=', T.add(start, T.mul(C(88), ts)), C(MIN_TICK))]

    def start_idx(e_, callee, args, path):
        yield path, I(start, 'i32')
    e.summaries.append((re.compile(r'^<Self as (pinocchio::state::whirlpool::tick_array::TickArray|state::tick_array::TickArrayType)>::start_tick_index$'), start_idx))
    def self_default(e_, callee, args, path):       # `<Self as Trait>::m` inside a trait default method: the default method of the same trait
        m = re.match(r'^<[\w:]+ as (.*)>::(\w+)$', callee)
        yield from e_.run(m.group(1) + '::' + m.group(2), args, path, _top=False)
    e.summaries.append((re.compile(r'^<(Self|state::fixed_tick_array::TickArray) as .*(TickArray|TickArrayType)>::(check_in_array_bounds|in_search_range|tick_offset)$'), self_default))
    fx = S({'start_tick_index': I(start, 'i32'), 'ticks': IdArr(88), 'whirlpool': Opaque('k')})
    fr0 = M.Frame(None); fr0.loc = {'_900': fx, '_901': Opaque('pino-array')}
    anchor_fn = [f for f in e.mir.fns if re.search(ANCHOR + '$', f)]
    assert len(anchor_fn) == 1, anchor_fn
    obls = []
    off_local = e.mir.find(PINO).debug['offset']
    pin = []
    for p, r in e.run(PINO, [M.Ref(fr0, '_901'), I(tick, 'i32'), I(ts, 'u16')], Path([T.cmp('<=', start, C(MAX_TICK)), T.cmp('>=', start, C(MIN_TICK - 88 * 65535))])):
        acc = e.last_locals.get(off_local)        # `offset` accumulator of the manual division (a constant on each path; absent on the early-return paths)
        pin.append((p, r, acc.t[1] if acc is not None and T.is_c(acc.t) else None))
    n_pairs = 0
    some_seen = none_seen = 0
    import os as _os
    lim = _os.environ.get('C12M_PATHS')
    for i, (pp, pr, acc) in enumerate(pin):
        if lim and str(i) not in lim.split(','): continue
        if isinstance(pr, Panic):
            o = M.Obligation(f'offset:pino:path{i}:no_panic', pp.pc, FALSE, note=pr.msg); o.replay = None; obls.append(o); continue
        for j, (ap, ar) in enumerate(e.run(anchor_fn[0], [M.Ref(fr0, '_900'), I(tick, 'i32'), I(ts, 'u16')], pp)):
            n_pairs += 1
            tag = f'offset:pair{i}.{j}'
            if isinstance(ar, Panic):
                o = M.Obligation(f'{tag}:anchor_no_panic', ap.pc + pre, FALSE, note=ar.msg); o.replay = None; obls.append(o); continue
            if pr.var == 'Some':
                some_seen += 1
                off = pr.fields[0].t
                if ar.var == 'Ok':
                    g = T.cmp('=', ar.fields[0].t, off)
                    note = 'both find the tick: same slot'
                else:
                    g = FALSE; note = 'Pinocchio finds a slot, Anchor reports TickNotFound: the pair must be infeasible'
                o = M.Obligation(f'{tag}:same_slot', ap.pc + pre, g, note=note)
                o.replay = None; o.off_const = off[1] if T.is_c(off) else 0; obls.append(o)
                o = M.Obligation(f'{tag}:slot_is_the_tick', ap.pc + pre, T.and_(T.cmp('=', T.add(start, T.mul(off, ts)), tick), T.cmp('<', off, C(88)), T.cmp('>=', off, C(0)),
                                                                         T.cmp('>=', tick, C(MIN_TICK)), T.cmp('<=', tick, C(MAX_TICK))),
                                 note='the offset addresses exactly this tick: start + offset*spacing == tick, offset < 88, tick within the protocol bounds')
                o.replay = None; o.off_const = off[1] if T.is_c(off) else 0; obls.append(o)
            else:
                none_seen += 1
                g = FALSE if ar.var == 'Ok' else TRUE
                o = M.Obligation(f'{tag}:both_not_found', ap.pc + pre, g, note='Pinocchio reports no slot: Anchor must report TickNotFound (pair with Ok infeasible)')
                o.replay = None; o.off_const = acc; obls.append(o)
    ctx.extra['offset_pairs'] = n_pairs
    qs = [q for (q, r, lem) in e.divmemo.values()]
    hints = product_hints([k] + qs, ts, list(range(-90, 91)))
    for o in obls:
        c0 = getattr(o, 'off_const', None)
        o.hints = hints if c0 is None else product_hints([k] + qs, ts, sorted({c0 - 1, c0, c0 + 1, 0, 1, -1, 88, -88, -c0, -c0 - 1, -c0 + 1}))
    ctx.functions.update(e.executed)
    # vacuity: there is a feasible Some-path and a feasible None-path
    ctx.discharge(obls, cap=ctx.cap(120, 600))
    if not some_seen or not none_seen:
        ctx.add('M:offset:paths', 'M', 'fault', 0, f'expected Some and None paths, got {some_seen}/{none_seen}', False)
