"""C15/C04 (Engine M part): the Anchor-GENERATED account validation `<Accounts>::try_accounts` of an instruction, executed from its MIR.

The Kani harnesses over the same generated code (k/src/c15.rs, c04.rs) need 10-30 minutes and up to 40 GB each, so most of them live in the thorough tier.
Here the generated function is executed in handler mode: the per-field loaders of the Anchor library (`<Box<Account<T>> as Accounts>::try_accounts`, `Signer`,
`Program`, `InterfaceAccount`, ...: library code, no MIR in the crate) are summaries that hand out the next account cell (fresh symbolic key, symbolic data of the
field's type, symbolic signer/writable flags) or fail; everything the macro generated from the `#[account(...)]` attributes — `has_one`, `address`, `constraint`,
`mut` — is the crate's own MIR and is executed. The obligations are the cross-account relations the PROPERTY demands on every accepting path, written here by
hand per instruction (not read off the attributes).
"""
import re
from vlib import term as T, mirsmt as M, handler as H
from vlib.term import C, TRUE, FALSE
from vlib.mirsmt import I, B, S, E, Path, Panic, Opaque, Boxed
from props import c17


def run_struct(ctx, module_rx, struct_name, ix_args=()):
    T.reset()
    e = M.Engine(ctx.mir(), prune_ms=2000, max_steps=60000)
    H.install(e)
    ctxv, accts, fr0 = c17.build_ctx(e, struct_name, e.havoc)
    order = [c17.acct(accts, f) for f, _ in e.havoc.structs[struct_name]]
    boxed = [isinstance(accts[f], Boxed) for f, _ in e.havoc.structs[struct_name]]
    for a in order:
        a.signer = T.bvar(f'signer_{a.name}'); a.writable = T.bvar(f'writable_{a.name}')
        a.owner = I(T.var(f'owner_{a.name}', 0, (1 << 256) - 1), 'pubkey')
    byname = {a.name: a for a in order}
    def field_loader(e_, callee, args, path):
        k = sum(1 for ev in path.trace if ev[0] == 'event' and ev[1] == 'load')       # the k-th loader call on this path takes the k-th field's account
        if k >= len(order):
            yield path, E('Err', [E('AccountNotEnoughKeys')]); return
        a = order[k]
        okb = T.bvar(f'load_ok_{a.name}')
        pe = e_.fork(path, T.not_(okb))
        if pe: yield pe.with_trace(('event', 'load_err', a.name)), E('Err', [E('LoaderError_' + a.name)])
        po = e_.fork(path, okb)
        if po is None: return
        facts = []
        if 'prelude::Signer<' in callee: facts.append(a.signer)      # Anchor: Signer::try_from fails unless info.is_signer
        po = Path(po.pc + facts, po.trace + [('event', 'load', a.name)])
        yield po, E('Ok', [Boxed(a) if callee.startswith('<Box<') else a])
    e.summaries.insert(0, (re.compile(r'^<(Box<)?anchor_lang::prelude::(Account|InterfaceAccount|Signer|Program|Interface|UncheckedAccount|AccountLoader|SystemAccount|Sysvar)<.*as anchor_lang::Accounts<.*>>::try_accounts$'), field_loader))

    def as_info(e_, callee, args, path):
        a = e_.deref(args[0])
        while isinstance(a, Boxed): a = a.val
        if isinstance(a, H.Acct):
            o = byname[a.name]        # the engine copies account cells when it forks: flags are looked up by account name
            yield path, S([a.key, Opaque('lamports'), Opaque('data'), o.owner, Opaque('rent_epoch'), B(o.signer), B(o.writable), Opaque('executable')])
        else:
            yield path, Opaque('account_info')
    e.summaries.insert(0, (re.compile(r'as AsRef<__AccountInfo<.*>>>::as_ref$|ToAccountInfo<.*>>::to_account_info$'), as_info))

    def box_as_ref(e_, callee, args, path):
        v = e_.deref(args[0])
        yield path, (v.val if isinstance(v, Boxed) else v)
    e.summaries.insert(0, (re.compile(r'^<Box<.*> as AsRef<anchor_lang::prelude::(Account|InterfaceAccount)<'), box_as_ref))

    ix_args_vals = list(ix_args)

    def ix_args_model(e_, callee, args, path):
        # `#[instruction(..)]` arguments of the accounts struct (Borsh-decoded from the instruction data): arbitrary values of their types, or a decode error
        okb = T.bvar('ix_args_ok')
        pe = e_.fork(path, T.not_(okb))
        if pe: yield pe, E('Err', [E('InstructionDidNotDeserialize')])
        po = e_.fork(path, okb)
        if po: yield po, E('Ok', [S([I(C(v), 'u8') for v in ix_args_vals] + [I(T.fresh('ix_arg', 0, 255), 'u8')])])
    e.summaries.insert(0, (re.compile(r'try_accounts::__Args as anchor_lang::AnchorDeserialize>::deserialize$'), ix_args_model))

    def map_err(e_, callee, args, path):
        yield path, args[0]
    e.summaries.insert(0, (re.compile(r'Result::<.*>::map_err::<anchor_lang::error::(Error|ErrorCode), '), map_err))

    def err_decor(e_, callee, args, path):
        yield path, args[0]
    e.summaries.insert(0, (re.compile(r'anchor_lang::error::Error::(with_account_name|with_pubkeys|with_values)'), err_decor))

    fn = [f for f in e.mir.fns if re.search(r'<impl at programs/whirlpool/src/instructions/' + module_rx + r'\.rs:[^>]*>::try_accounts$', f)]
    assert len(fn) == 1, (module_rx, fn)
    args = [Opaque('program_id'), Opaque('accounts_slice'), Opaque('ix_data'), Opaque('bumps'), Opaque('reallocs')]
    outs = list(e.run(fn[0], args, Path()))
    return e, {a.name: a for a in order}, outs


def fld(a, name):
    return a.data.get(name).t


def struct_task(tag, module_rx, struct_name, spec, ix_args=()):
    """spec(A) -> {name: goal term}: relations that must hold on every accepting path (A: account name -> Acct)"""
    def task(ctx):
        e, A, outs = run_struct(ctx, module_rx, struct_name, ix_args)
        obls = []; n_ok = 0
        for i, (p, r) in enumerate(outs):
            if isinstance(r, Panic):
                o = M.Obligation(f'accounts:{tag}:path{i}:no_panic', p.pc, FALSE, note=r.msg); o.replay = None; obls.append(o); continue
            if not (isinstance(r, E) and r.var == 'Ok'): continue
            n_ok += 1
            for name, goal in spec(A).items():
                o = M.Obligation(f'accounts:{tag}:path{i}:{name}', p.pc, goal, note='relation demanded by the property on every accepting path of the generated account validation')
                o.replay = None; obls.append(o)
        ctx.extra[f'accounts:{tag}'] = dict(paths=len(outs), accepting=n_ok)
        ctx.functions.update(e.executed)
        ctx.discharge(obls)
        if n_ok == 0:
            ctx.add(f'M:accounts:{tag}:vacuity', 'M', 'fault', 0, f'no accepting path among {len(outs)}', False)
    return f'accounts:{tag}', task


def eq(a, b): return T.cmp('=', a, b)


def position_rules(A, pta='position_token_account'):
    d = {'position_belongs_to_the_named_pool': eq(fld(A['position'], 'whirlpool'), A['whirlpool'].key.t),
         'position_token_is_of_this_position': eq(fld(A[pta], 'mint'), fld(A['position'], 'position_mint')),
         'exactly_one_position_token': eq(fld(A[pta], 'amount'), C(1)),
         'authority_signed': A['position_authority'].signer}
    return d


def spec_collect_fees(v2):
    def spec(A):
        d = position_rules(A)
        d['vault_a_is_the_pools'] = eq(A['token_vault_a'].key.t, fld(A['whirlpool'], 'token_vault_a'))
        d['vault_b_is_the_pools'] = eq(A['token_vault_b'].key.t, fld(A['whirlpool'], 'token_vault_b'))
        d['owner_account_a_has_the_pools_mint_a'] = eq(fld(A['token_owner_account_a'], 'mint'), fld(A['whirlpool'], 'token_mint_a'))
        d['owner_account_b_has_the_pools_mint_b'] = eq(fld(A['token_owner_account_b'], 'mint'), fld(A['whirlpool'], 'token_mint_b'))
        d['position_writable'] = A['position'].writable
        if v2:
            d['mint_a_is_the_pools'] = eq(A['token_mint_a'].key.t, fld(A['whirlpool'], 'token_mint_a'))
            d['mint_b_is_the_pools'] = eq(A['token_mint_b'].key.t, fld(A['whirlpool'], 'token_mint_b'))
        return d
    return spec


def spec_collect_reward(v2, idx):
    def spec(A):
        d = position_rules(A)
        d['position_writable'] = A['position'].writable
        ri = A['whirlpool'].data.get('reward_infos').items[idx]
        d['reward_vault_is_the_pools_vault_of_this_reward'] = eq(A['reward_vault'].key.t, ri.get('vault').t)
        d['owner_account_has_the_reward_mint'] = eq(fld(A['reward_owner_account'], 'mint'), ri.get('mint').t)
        if v2: d['reward_mint_account_is_the_rewards_mint'] = eq(A['reward_mint'].key.t, ri.get('mint').t)
        return d
    return spec


def spec_collect_protocol_fees(v2):
    def spec(A):
        d = {'vault_a_is_the_pools': eq(A['token_vault_a'].key.t, fld(A['whirlpool'], 'token_vault_a')),
             'vault_b_is_the_pools': eq(A['token_vault_b'].key.t, fld(A['whirlpool'], 'token_vault_b')),
             'pool_belongs_to_the_config': eq(fld(A['whirlpool'], 'whirlpools_config'), A['whirlpools_config'].key.t),
             'authority_is_the_configs_collect_authority': eq(A['collect_protocol_fees_authority'].key.t, fld(A['whirlpools_config'], 'collect_protocol_fees_authority')),
             'authority_signed': A['collect_protocol_fees_authority'].signer}
        if v2:
            d['mint_a_is_the_pools'] = eq(A['token_mint_a'].key.t, fld(A['whirlpool'], 'token_mint_a'))
            d['mint_b_is_the_pools'] = eq(A['token_mint_b'].key.t, fld(A['whirlpool'], 'token_mint_b'))
        return d
    return spec


def spec_swap(v2):
    def spec(A):
        d = {'vault_a_is_the_pools': eq(A['token_vault_a'].key.t, fld(A['whirlpool'], 'token_vault_a')),
             'vault_b_is_the_pools': eq(A['token_vault_b'].key.t, fld(A['whirlpool'], 'token_vault_b')),
             'owner_account_a_has_the_pools_mint_a': eq(fld(A['token_owner_account_a'], 'mint'), fld(A['whirlpool'], 'token_mint_a')),
             'owner_account_b_has_the_pools_mint_b': eq(fld(A['token_owner_account_b'], 'mint'), fld(A['whirlpool'], 'token_mint_b')),
             'authority_signed': A['token_authority'].signer, 'pool_writable': A['whirlpool'].writable}
        if v2:
            d['mint_a_is_the_pools'] = eq(A['token_mint_a'].key.t, fld(A['whirlpool'], 'token_mint_a'))
            d['mint_b_is_the_pools'] = eq(A['token_mint_b'].key.t, fld(A['whirlpool'], 'token_mint_b'))
        return d
    return spec


def spec_update_fees(A):
    return {'position_belongs_to_the_named_pool': eq(fld(A['position'], 'whirlpool'), A['whirlpool'].key.t), 'position_writable': A['position'].writable}


def spec_close_position(A):
    return {'position_token_is_of_this_position': eq(fld(A['position_token_account'], 'mint'), fld(A['position'], 'position_mint')),
            'exactly_one_position_token': eq(fld(A['position_token_account'], 'amount'), C(1)),
            'mint_account_is_the_positions_mint': eq(A['position_mint'].key.t, fld(A['position'], 'position_mint')),
            'authority_signed': A['position_authority'].signer}


def spec_two_hop(A):
    d = {'authority_signed': A['token_authority'].signer}
    for n in ('one', 'two'):
        wp = A['whirlpool_' + n]
        d[f'vault_{n}_a_is_the_pools'] = eq(A[f'token_vault_{n}_a'].key.t, fld(wp, 'token_vault_a'))
        d[f'vault_{n}_b_is_the_pools'] = eq(A[f'token_vault_{n}_b'].key.t, fld(wp, 'token_vault_b'))
        d[f'owner_account_{n}_a_has_the_pools_mint_a'] = eq(fld(A[f'token_owner_account_{n}_a'], 'mint'), fld(wp, 'token_mint_a'))
        d[f'owner_account_{n}_b_has_the_pools_mint_b'] = eq(fld(A[f'token_owner_account_{n}_b'], 'mint'), fld(wp, 'token_mint_b'))
        d[f'pool_{n}_writable'] = wp.writable
    return d


def spec_set_reward_emissions(idx):
    def spec(A):
        ri = A['whirlpool'].data.get('reward_infos').items[idx]
        return {'reward_vault_is_the_pools_vault_of_this_reward': eq(A['reward_vault'].key.t, ri.get('vault').t),
                'authority_signed': A['reward_authority'].signer, 'pool_writable': A['whirlpool'].writable}
    return spec


def tasks():
    return [
        struct_task('collect_fees', 'collect_fees', 'CollectFees', spec_collect_fees(False)),
        struct_task('collect_fees_v2', 'v2/collect_fees', 'CollectFeesV2', spec_collect_fees(True)),
    ] + [struct_task(f'collect_reward:index{i}', 'collect_reward', 'CollectReward', spec_collect_reward(False, i), (i,)) for i in range(3)] + [
        struct_task(f'collect_reward_v2:index{i}', 'v2/collect_reward', 'CollectRewardV2', spec_collect_reward(True, i), (i,)) for i in range(3)] + [
        struct_task('collect_protocol_fees', 'collect_protocol_fees', 'CollectProtocolFees', spec_collect_protocol_fees(False)),
        struct_task('collect_protocol_fees_v2', 'v2/collect_protocol_fees', 'CollectProtocolFeesV2', spec_collect_protocol_fees(True)),
        struct_task('swap', 'swap', 'Swap', spec_swap(False)),
        struct_task('swap_v2', 'v2/swap', 'SwapV2', spec_swap(True)),
        struct_task('update_fees_and_rewards', 'update_fees_and_rewards', 'UpdateFeesAndRewards', spec_update_fees),
        struct_task('close_position', 'close_position', 'ClosePosition', spec_close_position),
    ] + [struct_task(f'set_reward_emissions:index{i}', 'set_reward_emissions', 'SetRewardEmissions', spec_set_reward_emissions(i), (i,)) for i in range(3)] + [
        struct_task(f'set_reward_emissions_v2:index{i}', 'v2/set_reward_emissions', 'SetRewardEmissionsV2', spec_set_reward_emissions(i), (i,)) for i in range(3)]
