"""C11 — rewards accrue at the set emission rate, pro rata to in-range liquidity (Engine K part; an Engine-M part is added separately)."""
ID = 'C11'
LEVEL = 'model_checking'
TECHNIQUE = ('Kani/CBMC on the compiled functions: the reward_growths_outside bookkeeping lemmas (as C07 L1-L4) per reward index; '
             'calculate_collect_reward over all u64 pairs; next_whirlpool_reward_infos and its Pinocchio port with checked_mul_div uninterpreted')
FUNCTIONS = [
    'manager::tick_manager::next_reward_growths_inside', 'manager::tick_manager::next_tick_cross_update',
    'manager::tick_manager::next_tick_modify_liquidity_update', 'manager::position_manager::next_position_modify_liquidity_update',
    'manager::whirlpool_manager::next_whirlpool_reward_infos',
    'pinocchio::ported::manager_liquidity_manager::pino_next_reward_growths_inside',
    'pinocchio::ported::manager_liquidity_manager::pino_next_tick_modify_liquidity_update',
    'pinocchio::ported::manager_liquidity_manager::pino_next_position_modify_liquidity_update',
    'pinocchio::ported::manager_liquidity_manager::pino_next_whirlpool_reward_growth_global',
    'instructions::collect_reward::calculate_collect_reward', 'instructions::v2::collect_reward::calculate_collect_reward',
]
BOUNDS = [
    'one step per lemma; all u128 values incl. wrap-around; all u64 owed / vault / timestamp values; every initialised/uninitialised pattern of the 3 rewards',
    'one harness per (reward index, placement of the current tick / crossed bound and direction)',
    'unwind 34 (3 rewards -> 4; 32-byte key comparison -> 33)',
]
ASSUMPTIONS = [
    'as C07 for L1 / convention / L2 / L3 (C05 invariant on stored ticks; next-initialised-tick and tick-shift convention of the swap loop)',
    'L1 / convention / L2 are decided on the Anchor functions; pino_next_reward_growths_inside is proved equal to next_reward_growths_inside on all inputs '
    '(c11_pino_equiv_reward_inside), the lemmas transfer by substitution of equals; L3, frame, L4 are decided for both implementations',
    'checked_mul_div and checked_mul_shift_right are uninterpreted functions (Ackermann encoding, exact for zero factors and d == 0; calls with unexpected '
    'arguments are flagged); their floor / overflow arithmetic is contract A1 (Engine M)',
    'reachable-state invariant "uninitialised reward => emissions_per_second_x64 == 0" (set_reward_emissions needs the reward vault to be a token account): '
    'the Pinocchio port skips on emissions == 0, the Anchor code on the mint',
    'error conversions replaced by code-preserving stubs; message formatting stubbed; bool bytes in accounts are 0/1',
]
OUTSIDE = [
    'composing the steps over unbounded histories and position sets ("credited reward = pro-rata share of emissions minus bounded rounding") is a written '
    'argument (DESIGN §4), not a solver verdict',
    'the value of floor(dt*e/L) and of floor(L*d/2^64), collect_reward / set_reward_emissions handlers (payout, vault >= one day of emissions, settle at the '
    'old rate): Engine M / handler harnesses, not in this file',
]
EXPLANATION = 'reward outside bookkeeping lemmas per reward; collect pays min(owed, vault); global growth += F(dt, emissions, liquidity), dropped on overflow, never inflated'


TECHNIQUE = TECHNIQUE + '; complemented by Engine M (rustc MIR -> integer SMT, z3 5.1): collect_reward(_v2) / set_reward_emissions(_v2) handlers in handler mode, Whirlpool::update_emissions from its MIR, accrual and credit leaf kernels, swap-loop wiring W5/P7'


def run(ctx):
    # Engine M complement (props/mextra.py): the swap loop's crossing/fee/reward wiring (Floyd verification shared with C03) and, where relevant, the payout handlers and leaf kernels
    from props import mextra
    ctx.mir()
    ctx.parallel(mextra.c11_tasks(), max_procs=6)
    ctx.run_kani(['c11.rs'])
