"""Engine M part of C14: the exact adaptive fee rate formula (Kani could not decide the squared product), from the MIR of FeeRateManager::get_total_fee_rate."""
import re, os
from vlib import term as T, mirsmt as M
from vlib.term import C, TRUE, FALSE
from vlib.mirsmt import I, B, S, E, Path, Panic, Opaque

CONST_FIELDS = ['filter_period', 'decay_period', 'reduction_factor', 'adaptive_fee_control_factor', 'max_volatility_accumulator', 'tick_group_size', 'major_swap_threshold_ticks']
VAR_FIELDS = ['last_reference_update_timestamp', 'last_major_swap_timestamp', 'volatility_reference', 'tick_group_index_reference', 'volatility_accumulator']
TY = dict(filter_period='u16', decay_period='u16', reduction_factor='u16', adaptive_fee_control_factor='u32', max_volatility_accumulator='u32', tick_group_size='u16',
          major_swap_threshold_ticks='u16', last_reference_update_timestamp='u64', last_major_swap_timestamp='u64', volatility_reference='u32',
          tick_group_index_reference='i32', volatility_accumulator='u32')


def rate_task(ctx):
    """total fee rate of an adaptive pool = min(100000, static + min(100000, ceil(cf * (acc*size)^2 / 10^13))); never below static; no intermediate wrap"""
    T.reset()
    e = M.Engine(ctx.mir())
    c = {f: T.var('c_' + f, 0, (1 << M.BITS[TY[f]]) - 1) for f in CONST_FIELDS}
    v = {}
    for f in VAR_FIELDS:
        lo, hi = (-(1 << 31), (1 << 31) - 1) if TY[f] == 'i32' else (0, (1 << M.BITS[TY[f]]) - 1)
        v[f] = T.var('v_' + f, lo, hi)
    static = T.var('static_fee_rate', 0, 65535)
    cs = S({**{f: I(c[f], TY[f]) for f in CONST_FIELDS}, 'reserved': Opaque('r')})
    vs = S({**{f: I(v[f], TY[f]) for f in VAR_FIELDS}, 'reserved': Opaque('r')})
    # validate_constants (C19) and the accumulator invariant (C14 harness 2): acc <= max, max * group size fits u32
    pre = [T.cmp('<=', v['volatility_accumulator'], c['max_volatility_accumulator']),
           T.cmp('<=', T.mul(c['max_volatility_accumulator'], c['tick_group_size']), C(2**32 - 1)),
           T.cmp('<', c['adaptive_fee_control_factor'], C(100000))]
    mgr = E('Adaptive', [B(T.bvar('a_to_b')), I(T.var('tgi', -(1 << 31), (1 << 31) - 1), 'i32'), I(static, 'u16'), cs, vs, Opaque('lower'), Opaque('upper')])
    fr0 = M.Frame(None); fr0.loc = {'_900': mgr}
    obls = []
    n_ok = 0
    for i, (p, r) in enumerate(e.run('fee_rate_manager::FeeRateManager::get_total_fee_rate', [M.Ref(fr0, '_900')], Path(pre))):
        if isinstance(r, Panic):
            o = M.Obligation(f'rate:path{i}:no_panic', p.pc, FALSE, note=r.msg); o.replay = None; obls.append(o); continue
        n_ok += 1
        crossed = T.mul(v['volatility_accumulator'], c['tick_group_size'])
        N = T.mul(c['adaptive_fee_control_factor'], T.mul(crossed, crossed)); D = C(100000 * 10000 * 10000)
        x = T.fresh('adaptive_rate', 0, None)     # ceil(N/D)
        ceil_def = T.and_(T.cmp('>=', T.mul(x, D), N), T.or_(T.cmp('=', x, C(0)), T.cmp('<', T.mul(T.sub(x, C(1)), D), N)))
        capped = T.ite(T.cmp('>', x, C(100000)), C(100000), x)
        total = T.add(static, capped)
        spec = T.ite(T.cmp('>', total, C(100000)), C(100000), total)
        o = M.Obligation(f'rate:path{i}:equals_formula', p.pc + [ceil_def], T.cmp('=', r.t, spec),
                         note='static + ceil(control_factor * (accumulator * group_size)^2 / (100000 * 10000^2)), each capped at 100000'); o.replay = None; obls.append(o)
        o = M.Obligation(f'rate:path{i}:within_static_and_hard_limit', p.pc, T.and_(T.cmp('<=', r.t, C(100000)), T.or_(T.cmp('>=', r.t, static), T.cmp('>', static, C(100000))))); o.replay = None; obls.append(o)
        o = M.Obligation(f'rate:path{i}:zero_control_factor_is_static', p.pc + [T.cmp('=', c['adaptive_fee_control_factor'], C(0))], T.cmp('=', r.t, T.ite(T.cmp('>', static, C(100000)), C(100000), static))); o.replay = None; obls.append(o)
        nw = [ev[3] for ev in p.trace if ev[1] == 'nowrap']
        if nw:
            o = M.Obligation(f'rate:path{i}:no_wrap', p.pc, T.and_(*nw), note='no intermediate product wraps under validate_constants'); o.replay = None; obls.append(o)
    ctx.functions.update(e.executed)
    ctx.add('M:rate:vacuity', 'M', 'discharged' if n_ok else 'fault', 0, f'{n_ok} paths', False)
    ctx.discharge(obls)
