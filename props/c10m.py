"""C10 (Engine M part): the floor lemma of TickArrayType::tick_offset / get_offset for a SYMBOLIC tick spacing.

The Kani lemma harness (k/src/c10.rs, L1) decides it for eight concrete spacings (CBMC does not finish `/` and `%` by a symbolic divisor).
Here the default method is executed from its MIR into integer SMT with Rust's truncating signed division, for every spacing 1..65535:

    tick_offset(tick, spacing) = Ok(o)   with   start + o*spacing <= tick < start + (o+1)*spacing        (floor division, also for tick < start)

which is what the search functions rely on when they turn a tick into a slot (o in 0..87), "left of the array" (o < 0) or "right of it" (o >= 88).
"""
import re
from vlib import term as T, mirsmt as M
from vlib.term import C, TRUE, FALSE
from vlib.mirsmt import I, B, S, E, Path, Panic, Opaque
from props.c12m import product_hints

MIN_TICK, MAX_TICK = -443636, 443636
FN = 'state::tick_array::TickArrayType::tick_offset'


def offset_lemma_task(ctx):
    T.reset()
    e = M.Engine(ctx.mir(), prune_ms=300)
    ts = T.var('ts', 0, 65535); tick = T.var('tick', -(1 << 31), (1 << 31) - 1); k = T.var('k', -(1 << 31), (1 << 31) - 1)
    start = T.fresh('start', -(1 << 31), (1 << 31) - 1)
    span = 89 * 65535
    lin = [T.cmp('<=', start, C(MAX_TICK)), T.cmp('>=', start, C(MIN_TICK - 88 * 65535)), T.cmp('>=', tick, C(MIN_TICK - span)), T.cmp('<=', tick, C(MAX_TICK + span))]
    pre = [T.cmp('=', start, T.mul(k, ts))]

    def start_idx(e_, callee, args, path):
        yield path, I(start, 'i32')
    e.summaries.append((re.compile(r'^<Self as state::tick_array::TickArrayType>::start_tick_index$'), start_idx))
    fr0 = M.Frame(None); fr0.loc = {'_900': Opaque('array')}
    obls = []
    n_ok = n_err = 0
    for i, (p, r) in enumerate(e.run(FN, [M.Ref(fr0, '_900'), I(tick, 'i32'), I(ts, 'u16')], Path(list(lin)))):
        tag = f'offset_lemma:path{i}'
        if isinstance(r, Panic):
            o = M.Obligation(f'{tag}:no_panic', p.pc + pre, FALSE, note=r.msg); o.replay = None; obls.append(o); continue
        if r.var == 'Err':
            n_err += 1
            o = M.Obligation(f'{tag}:error_only_for_zero_spacing', p.pc + pre, T.cmp('=', ts, C(0)), note='InvalidTickSpacing iff spacing == 0'); o.replay = None; obls.append(o)
            continue
        n_ok += 1
        off = r.fields[0].t
        qs = [q for (q, rr, lem) in e.divmemo.values()]
        ots = T.fresh('ots', None, None)       # stands for off * ts: fully determined by the three cases below once off is one of them
        defs = []
        cases = []
        for q in qs:
            qt = T.mul(q, ts)
            for cand, prod in ((q, qt), (T.sub(C(0), q), T.sub(C(0), qt)), (T.sub(T.sub(C(0), q), C(1)), T.sub(T.sub(C(0), qt), ts))):
                defs.append(T.implies(T.cmp('=', off, cand), T.cmp('=', ots, prod)))
                cases.append(T.cmp('=', off, cand))
        hints = product_hints([k] + qs, ts, [-1, 0, 1])
        pos = [T.cmp('>=', ts, C(1))]
        o = M.Obligation(f'{tag}:offset_is_plus_or_minus_the_quotient', p.pc + pre + pos, T.or_(*cases),
                         note='the returned offset is q, -q or -q-1 for the quotient q of |tick - start| by the spacing (so off*spacing is one of the three linear forms)')
        o.replay = None; o.hints = hints; obls.append(o)
        d = T.sub(T.sub(tick, start), ots)
        o = M.Obligation(f'{tag}:floor', p.pc + pre + pos + defs, T.and_(T.cmp('<=', C(0), d), T.cmp('<', d, ts)),
                         note='start + off*spacing <= tick < start + (off+1)*spacing: floor division also left of the array start')
        o.replay = None; o.hints = hints; obls.append(o)
        o = M.Obligation(f'{tag}:in_array_iff_slot', p.pc + pre + pos + defs,
                         T.beq(T.and_(T.cmp('>=', off, C(0)), T.cmp('<', off, C(88))), T.and_(T.cmp('<=', start, tick), T.cmp('<', tick, T.add(start, T.mul(C(88), ts))))),
                         note='0 <= off < 88  iff  start <= tick < start + 88*spacing')
        o.replay = None; o.hints = hints + product_hints([k] + qs, ts, [87, 88, -87, -88]); obls.append(o)
    ctx.functions.update(e.executed)
    ctx.discharge(obls, cap=ctx.cap(120, 600))
    if not n_ok:
        ctx.add('M:offset_lemma:paths', 'M', 'fault', 0, f'expected Ok paths, got {n_ok} Ok / {n_err} Err', False)


# ------------------------------------------------------------------------------------------------------------------
# SparseSwapTickSequenceBuilder::new: merge + de-duplication of the supplied tick-array accounts
class KeyedVec:
    """abstract Vec<AccountInfo>: a list of (present flag, key term, origin tag); std's Vec operations used by the function are MODELLED from their
    documented semantics (Extend: concatenation; sort_by_key: stable ascending sort by the key the closure returns; dedup_by_key: removes all but the
    first of CONSECUTIVE elements with equal keys) — the closures are the function's own MIR and are executed to obtain each key"""
    def __init__(s, items): s.items = list(items)
    def __repr__(s): return f'KeyedVec({len(s.items)})'


def builder_task(n_static, n_suppl):
    tag = f'builder_dedup:{n_static}+{n_suppl}'

    def task(ctx):
        from vlib import handler as H
        T.reset()
        e = M.Engine(ctx.mir(), prune_ms=300)
        H.install(e)
        keys = [T.var(f'key{i}', 0, (1 << 256) - 1) for i in range(n_static + n_suppl)]
        accts = [H.Acct(f'acct{i}', I(k, 'pubkey')) for i, k in enumerate(keys)]
        rec = {'sort': 0, 'dedup': 0, 'extend': 0}

        def key_via_closure(e_, callee, which, acct, path):
            """run the closure the code passes (its MIR) on one element to get the key term"""
            cl = re.findall(r'\{closure@[^}]*\}', callee)
            c = cl[-1]
            cands = [nme for nme, f in e_.mir.fns.items() if f.sig.startswith('_1: &' + c) or f.sig.startswith('_1: &mut ' + c) or f.sig.startswith('_1: ' + c)]
            fr = M.Frame(None); fr.loc = {'_900': acct}
            outs = [(p, r) for p, r in e_.run(e_.mir.fns[cands[0]], [Opaque('closure'), M.Ref(fr, '_900')], path, _top=False)]
            assert len(outs) == 1, outs
            return outs[0][1].t

        def vec_of(e_, v):
            v = e_.deref(v)
            return v

        def extend(e_, callee, args, path):
            rec['extend'] += 1
            dst_ref = args[0]; src = vec_of(e_, args[1])
            dst = e_.deref(dst_ref)
            new = KeyedVec(dst.items + src.items)
            e_.write_place(dst_ref.frame, dst_ref.place, new)
            yield path, M.Unit()
        e.summaries.insert(0, (re.compile(r'as Extend<.*>>::extend::<Vec<'), extend))

        def deref_mut(e_, callee, args, path):
            yield path, args[0]
        e.summaries.insert(0, (re.compile(r'^<Vec<.*> as DerefMut>::deref_mut$'), deref_mut))

        def sort_by_key(e_, callee, args, path):
            rec['sort'] += 1
            ref = args[0]
            while isinstance(e_.read_place(ref.frame, ref.place), M.Ref): ref = e_.read_place(ref.frame, ref.place)
            v = e_.read_place(ref.frame, ref.place)
            items = [(pres, key_via_closure(e_, callee, 'sort', H.Acct('x', I(k, 'pubkey')), path), org) for (pres, k, org) in v.items]
            # stable insertion-sort network on (key, origin): compare-exchange of neighbours, n rounds
            n = len(items)
            cur = [(pres, k, org) for (pres, k, org) in items]
            for rnd in range(n):
                for j in range(n - 1 - rnd):
                    (p1, k1, o1), (p2, k2, o2) = cur[j], cur[j + 1]
                    sw = T.cmp('>', k1, k2)
                    cur[j] = (T.ite(sw, p2, p1) if p1 is not p2 else p1, T.ite(sw, k2, k1), T.ite(sw, o2, o1))
                    cur[j + 1] = (T.ite(sw, p1, p2) if p1 is not p2 else p1, T.ite(sw, k1, k2), T.ite(sw, o1, o2))
            e_.write_place(ref.frame, ref.place, KeyedVec(cur))
            yield path, M.Unit()
        e.summaries.insert(0, (re.compile(r'::sort_by_key::<'), sort_by_key))

        def dedup_by_key(e_, callee, args, path):
            rec['dedup'] += 1
            ref = args[0]
            v = e_.deref(ref)
            out = []
            last_kept_key = None      # key of the most recent KEPT element (std compares each element with the last retained one)
            for idx, (pres, k, org) in enumerate(v.items):
                kk = key_via_closure(e_, callee, 'dedup', H.Acct('x', I(k, 'pubkey')), path)
                if last_kept_key is None:
                    keep = pres
                    last_kept_key = kk
                else:
                    keep = T.and_(pres, T.not_(T.cmp('=', kk, last_kept_key)))
                    last_kept_key = T.ite(keep, kk, last_kept_key)
                out.append((keep, k, org))
            e_.write_place(ref.frame, ref.place, KeyedVec(out))
            yield path, M.Unit()
        e.summaries.insert(0, (re.compile(r'::dedup_by_key::<'), dedup_by_key))

        def mk(accs, off):
            return KeyedVec([(TRUE, a.key.t, C(off + i)) for i, a in enumerate(accs)])
        st = mk(accts[:n_static], 0)
        sup = E('Some', [mk(accts[n_static:], n_static)]) if n_suppl else E('None')
        fn = [f for f in e.mir.fns if re.search(r'sparse_swap::<impl at [^>]*>::new$', f) and 'Vec<__AccountInfo' in e.mir.fns[f].sig]
        assert len(fn) == 1, fn
        obls = []
        outs = list(e.run(fn[0], [st, sup], Path([])))
        for i, (p, r) in enumerate(outs):
            if isinstance(r, Panic):
                o = M.Obligation(f'{tag}:path{i}:no_panic', p.pc, FALSE, note=r.msg); o.replay = None; obls.append(o); continue
            v = r.get('tick_array_accounts')
            items = v.items
            nodup = []
            for a in range(len(items)):
                for b in range(a + 1, len(items)):
                    nodup.append(T.not_(T.and_(items[a][0], items[b][0], T.cmp('=', items[a][1], items[b][1]))))
            o = M.Obligation(f'{tag}:path{i}:no_two_remaining_accounts_share_a_key', p.pc, T.and_(*nodup),
                             note='after the merge no key occurs twice among the retained accounts, whatever the positions of the duplicates in the input'); o.replay = None; obls.append(o)
            keep_all = []
            for k in keys:
                keep_all.append(T.or_(*[T.and_(pres, T.cmp('=', kk, k)) for (pres, kk, org) in items]))
            o = M.Obligation(f'{tag}:path{i}:every_supplied_key_is_retained', p.pc, T.and_(*keep_all), note='every supplied account key is still present'); o.replay = None; obls.append(o)
            o = M.Obligation(f'{tag}:path{i}:nothing_new', p.pc, T.and_(*[T.or_(T.not_(pres), *[T.cmp('=', kk, k) for k in keys]) for (pres, kk, org) in items]),
                             note='every retained key is one of the supplied keys'); o.replay = None; obls.append(o)
        ctx.extra[tag] = dict(paths=len(outs), modelled_calls=dict(rec))
        ctx.functions.update(e.executed)
        ctx.discharge(obls, cap=ctx.cap(60, 300))
        if not outs or rec['dedup'] == 0:
            ctx.add(f'M:{tag}:vacuity', 'M', 'fault', 0, f'paths={len(outs)} modelled calls={rec}', False)
    return tag, task


def builder_tasks():
    return [builder_task(3, 0), builder_task(3, 1), builder_task(3, 3)]
