"""C10 (Engine M part): the floor lemma of TickArrayType::tick_offset / get_offset for a SYMBOLIC tick spacing.

The Kani lemma harness (k/src/c10.rs, L1) decides it for eight concrete spacings (CBMC does not finish `/` and `%` by a symbolic divisor).
Here the default method is executed from its MIR into integer SMT with Rust's truncating signed division, for every spacing 1..65535:

    tick_offset(tick, spacing) = Ok(o)   with   start + o*spacing <= tick < start + (o+1)*spacing        (floor division, also for tick < start)

which is what the search functions rely on when they turn a tick into a slot (o in 0..87), "left of the array" (o < 0) or "right of it" (o >= 88).
"""
import re
from vlib import term as T, mirsmt as M
from vlib.term import C, TRUE, FALSE
from vlib.mirsmt import I, B, S, E, Path, Panic, Opaque
from props.c12m import product_hints

MIN_TICK, MAX_TICK = -443636, 443636
FN = 'state::tick_array::TickArrayType::tick_offset'


def offset_lemma_task(ctx):
    T.reset()
    e = M.Engine(ctx.mir(), prune_ms=300)
    ts = T.var('ts', 0, 65535); tick = T.var('tick', -(1 << 31), (1 << 31) - 1); k = T.var('k', -(1 << 31), (1 << 31) - 1)
    start = T.fresh('start', -(1 << 31), (1 << 31) - 1)
    span = 89 * 65535
    lin = [T.cmp('<=', start, C(MAX_TICK)), T.cmp('>=', start, C(MIN_TICK - 88 * 65535)), T.cmp('>=', tick, C(MIN_TICK - span)), T.cmp('<=', tick, C(MAX_TICK + span))]
    pre = [T.cmp('=', start, T.mul(k, ts))]

    def start_idx(e_, callee, args, path):
        yield path, I(start, 'i32')
    e.summaries.append((re.compile(r'^<Self as state::tick_array::TickArrayType>::start_tick_index$'), start_idx))
    fr0 = M.Frame(None); fr0.loc = {'_900': Opaque('array')}
    obls = []
    n_ok = n_err = 0
    for i, (p, r) in enumerate(e.run(FN, [M.Ref(fr0, '_900'), I(tick, 'i32'), I(ts, 'u16')], Path(list(lin)))):
        tag = f'offset_lemma:path{i}'
        if isinstance(r, Panic):
            o = M.Obligation(f'{tag}:no_panic', p.pc + pre, FALSE, note=r.msg); o.replay = None; obls.append(o); continue
        if r.var == 'Err':
            n_err += 1
            o = M.Obligation(f'{tag}:error_only_for_zero_spacing', p.pc + pre, T.cmp('=', ts, C(0)), note='InvalidTickSpacing iff spacing == 0'); o.replay = None; obls.append(o)
            continue
        n_ok += 1
        off = r.fields[0].t
        qs = [q for (q, rr, lem) in e.divmemo.values()]
        ots = T.fresh('ots', None, None)       # stands for off * ts: fully determined by the three cases below once off is one of them
        defs = []
        cases = []
        for q in qs:
            qt = T.mul(q, ts)
            for cand, prod in ((q, qt), (T.sub(C(0), q), T.sub(C(0), qt)), (T.sub(T.sub(C(0), q), C(1)), T.sub(T.sub(C(0), qt), ts))):
                defs.append(T.implies(T.cmp('=', off, cand), T.cmp('=', ots, prod)))
                cases.append(T.cmp('=', off, cand))
        hints = product_hints([k] + qs, ts, [-1, 0, 1])
        pos = [T.cmp('>=', ts, C(1))]
        o = M.Obligation(f'{tag}:offset_is_plus_or_minus_the_quotient', p.pc + pre + pos, T.or_(*cases),
                         note='the returned offset is q, -q or -q-1 for the quotient q of |tick - start| by the spacing (so off*spacing is one of the three linear forms)')
        o.replay = None; o.hints = hints; obls.append(o)
        d = T.sub(T.sub(tick, start), ots)
        o = M.Obligation(f'{tag}:floor', p.pc + pre + pos + defs, T.and_(T.cmp('<=', C(0), d), T.cmp('<', d, ts)),
                         note='start + off*spacing <= tick < start + (off+1)*spacing: floor division also left of the array start')
        o.replay = None; o.hints = hints; obls.append(o)
        o = M.Obligation(f'{tag}:in_array_iff_slot', p.pc + pre + pos + defs,
                         T.beq(T.and_(T.cmp('>=', off, C(0)), T.cmp('<', off, C(88))), T.and_(T.cmp('<=', start, tick), T.cmp('<', tick, T.add(start, T.mul(C(88), ts))))),
                         note='0 <= off < 88  iff  start <= tick < start + 88*spacing')
        o.replay = None; o.hints = hints + product_hints([k] + qs, ts, [87, 88, -87, -88]); obls.append(o)
    ctx.functions.update(e.executed)
    ctx.discharge(obls, cap=ctx.cap(120, 600))
    if not n_ok:
        ctx.add('M:offset_lemma:paths', 'M', 'fault', 0, f'expected Ok paths, got {n_ok} Ok / {n_err} Err', False)
