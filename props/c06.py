"""C06 — trader input splits exactly into curve amount, protocol share and LP share (Engines M + K)."""
import time, os
from vlib import term as T, mirsmt as M, specs as SP
from vlib.term import C, TRUE, FALSE
from vlib.mirsmt import I, B, E, S, Path, Panic
from props import c02

ID = 'C06'
LEVEL = 'model_checking'
TECHNIQUE = 'symbolic execution of rustc MIR into integer SMT (z3 5.1 NIA) for the fee formulas; Kani/CBMC for the state update and payout glue'
FUNCTIONS = ['math::swap_math::compute_swap (fee formula)', 'manager::swap_manager::calculate_fees', 'manager::swap_manager::calculate_protocol_fee']
BOUNDS = ['single step / single call; all u64 amounts, fee 0..=100000, protocol fee rate 0..=2500, liquidity all u128']
ASSUMPTIONS = c02.ASSUMPTIONS + ['protocol_fee_rate <= 2500 (C19 invariant of every writer)']
OUTSIDE = ['accumulation over the steps of one swap is decided in C03 (bounded unrolling of the loop)',
           'v2 event fields with transfer fees (C16)']
EXPLANATION = 'fee formula per step from compute_swap MIR; protocol cut and LP growth from calculate_fees MIR; owed update / payout by Kani'


def fees_task(ctx):
    T.reset()
    e = M.Engine(ctx.mir())
    fee = T.var('fee', 0, 2**64 - 1); rate = T.var('rate', 0, 2500); L = T.var('L', 0, 2**128 - 1)
    pf = T.var('pf', 0, 2**64 - 1); g = T.var('g', 0, 2**128 - 1)
    args = [fee, rate, L, pf, g]
    W64 = C(1 << 64)

    def goals(fee, rate, L, pf, g, npf, ng):
        cut = T.div(T.mul(fee, rate), C(10000))
        gl = {}
        gl['protocol_cut_floor'] = T.cmp('=', npf, T.mod(T.add(pf, cut), W64))
        lp = T.sub(fee, cut)
        # growth' = growth + floor(lp * 2^64 / L)  (mod 2^128), untouched when L == 0
        d = T.mod(T.sub(ng, g), C(1 << 128))
        gl['lp_growth_floor'] = T.ite(T.cmp('=', L, C(0)), T.cmp('=', ng, g),
                                      T.and_(T.cmp('<=', T.mul(d, L), T.mul(lp, W64)), T.cmp('>', T.mul(T.add(d, C(1)), L), T.mul(lp, W64))))
        gl['cut_at_most_fee'] = T.cmp('<=', cut, fee)
        return gl

    def mk_check(name):
        def check(vals, out):
            p = out.split()
            if p[0] != 'Ok': return False
            cs = [C(v) for v in vals] + [C(int(p[1])), C(int(p[2]))]
            return bool(T.evaluate(goals(*cs)[name], {}))
        return check

    obls = []
    outs = list(e.run('swap_manager::calculate_fees', [I(fee, 'u64'), I(rate, 'u16'), I(L, 'u128'), I(pf, 'u64'), I(g, 'u128')], Path()))
    wit = 0
    for i, (path, r) in enumerate(outs):
        if isinstance(r, Panic):
            o = M.Obligation(f'fees:path{i}:no_panic', path.pc, FALSE, note=r.msg); o.nontrivial = False
            o.replay = dict(fn='calculate_fees', args=args, check=lambda v, out: out != 'Panic')
            obls.append(o); continue
        npf, ng = r.get('0').t, r.get('1').t
        gl = goals(fee, rate, L, pf, g, npf, ng)
        nw = [ev[3] for ev in path.trace if ev[1] == 'nowrap']
        if nw: gl['no_wrap'] = T.and_(*nw)
        for name, gg in gl.items():
            o = M.Obligation(f'fees:path{i}:{name}', path.pc, gg)
            o.replay = dict(fn='calculate_fees', args=args, check=mk_check(name) if name != 'no_wrap' else (lambda v, out: out != 'Panic'))
            obls.append(o)
    ctx.extra['paths'] = {'outcomes': len(outs)}
    ctx.functions.update(e.executed)
    ctx.discharge(obls)
    # twin: claiming the protocol cut is rounded UP must be refuted
    tw = None
    for i, (path, r) in enumerate(outs):
        if isinstance(r, Panic): continue
        npf = r.get('0').t
        tw = M.Obligation('fees:twin_cut_rounds_up', path.pc, T.cmp('>=', T.mul(T.mod(T.sub(npf, pf), W64), C(10000)), T.mul(fee, rate)))
        tw.replay = dict(fn='calculate_fees', args=args,
                         check=lambda v, out: ((int(out.split()[1]) - v[3]) % 2**64) * 10000 >= v[0] * v[1])
        M.discharge([tw], 60, 1, os.path.join(ctx.logdir, 'smt_twin'))
        if tw.verdict == 'sat': break
    from vlib import replay_m
    if tw is None or tw.verdict != 'sat':
        ctx.add('M:fees:twin', 'M', 'fault', 0, 'vacuity twin was not refuted', False)
    else:
        v, info = replay_m.replay(tw, os.path.join(ctx.logdir, 'mreplay.log'))
        ctx.add('M:fees:twin', 'M', 'discharged' if v == 'violates' else 'fault', tw.time, info, False,
                {'obligation': tw.key, 'verdict': 'sat (as required)', 'native': info})


def update_after_swap_task(ctx):
    """Whirlpool::update_after_swap adds the swap's protocol fee to the owed amount of the INPUT token and stores the new growth on that side only"""
    from vlib import handler as H
    obls = []
    for fee_in_a in (True, False):
        T.reset() if fee_in_a else None
        e = M.Engine(ctx.mir())
        H.install(e)
        pre = e.havoc.value('Whirlpool', 'wpA' if fee_in_a else 'wpB')
        fr0 = M.Frame(None); fr0.loc = {'_900': pre}      # the callee writes through this reference; one run per flag value, so no fork shares it
        sfx = 'a' if fee_in_a else 'b'
        liq = T.var('n_liq_' + sfx, 0, 2**128 - 1); tick = T.var('n_tick_' + sfx, -(2**31), 2**31 - 1); sp = T.var('n_price_' + sfx, 0, 2**128 - 1)
        fgg = T.var('n_fgg_' + sfx, 0, 2**128 - 1); pfee = T.var('n_pfee_' + sfx, 0, 2**64 - 1); ts = T.var('n_ts_' + sfx, 0, 2**64 - 1)
        args = [M.Ref(fr0, '_900'), I(liq, 'u128'), I(tick, 'i32'), I(sp, 'u128'), I(fgg, 'u128'), M.Opaque('reward_infos'), I(pfee, 'u64'),
                B(TRUE if fee_in_a else FALSE), I(ts, 'u64')]
        outs = list(e.run('Whirlpool::update_after_swap', args, Path()))
        tag = f'update_after_swap:fee_in_{sfx}'
        if len(outs) != 1 or isinstance(outs[0][1], Panic):
            o = M.Obligation(f'{tag}:single_path_no_panic', [], FALSE, note=str(outs)[:200]); o.replay = None; obls.append(o); continue
        p = outs[0][0]
        post = e.last_ext[0]        # final value of the `&mut self` argument on this (single) path
        g = lambda st, f: st.get(f).t
        W = C(1 << 64)
        mine, other = ('a', 'b') if fee_in_a else ('b', 'a')
        goal = T.and_(
            T.cmp('=', g(post, 'liquidity'), liq), T.cmp('=', g(post, 'tick_current_index'), tick), T.cmp('=', g(post, 'sqrt_price'), sp),
            T.cmp('=', g(post, 'protocol_fee_owed_' + mine), T.mod(T.add(g(pre, 'protocol_fee_owed_' + mine), pfee), W)),
            T.cmp('=', g(post, 'fee_growth_global_' + mine), fgg),
            T.cmp('=', g(post, 'protocol_fee_owed_' + other), g(pre, 'protocol_fee_owed_' + other)),
            T.cmp('=', g(post, 'fee_growth_global_' + other), g(pre, 'fee_growth_global_' + other)))
        o = M.Obligation(f'{tag}:fee_added_to_input_side_only', p.pc, goal); o.replay = None; obls.append(o)
        for f in ('fee_rate', 'protocol_fee_rate', 'tick_spacing', 'token_mint_a', 'token_mint_b', 'token_vault_a', 'token_vault_b', 'whirlpools_config'):
            o = M.Obligation(f'{tag}:{f}_untouched', p.pc, T.cmp('=', g(post, f), g(pre, f))); o.replay = None; obls.append(o)
        ctx.functions.update(e.executed)
    ctx.discharge(obls)


def collect_protocol_fees_task(v2):
    """collect_protocol_fees(_v2) handler: pays exactly protocol_fee_owed_a / _b from the pool's vaults and resets both to zero"""
    def task(ctx):
        from vlib import handler as H
        from props import c17
        fn = 'instructions::v2::collect_protocol_fees::handler' if v2 else 'instructions::collect_protocol_fees::handler'
        st = 'CollectProtocolFeesV2' if v2 else 'CollectProtocolFees'
        tag = 'collect_protocol_fees_v2' if v2 else 'collect_protocol_fees'
        pre = {}
        def scalars(T_):
            return [M.Opaque('remaining_accounts_info')] if v2 else []
        T.reset()
        e = M.Engine(ctx.mir(), prune_ms=3000, max_steps=40000)
        H.install(e, record=c17.RECORD + [r'transfer_from_vault_to_owner(_v2)?$'])
        ctxv, accts, fr0 = c17.build_ctx(e, st, e.havoc)
        wp0 = c17.acct(accts, 'whirlpool').data
        owed_a, owed_b = wp0.get('protocol_fee_owed_a').t, wp0.get('protocol_fee_owed_b').t
        obls = []
        n_ok = 0
        wcell = c17.acct(accts, 'whirlpool')
        for i, (p, r) in enumerate(e.run(fn, [ctxv] + scalars(T), Path())):
            if isinstance(r, Panic):
                o = M.Obligation(f'{tag}:path{i}:no_panic', p.pc, FALSE, note=r.msg); o.replay = None; obls.append(o); continue
            if not (isinstance(r, E) and r.var == 'Ok'): continue
            n_ok += 1
            tr = c17.calls(p, r'transfer_from_vault_to_owner(_v2)?$')
            amts = []
            for ev in tr:
                xs = [H.snapshot(e, x) for x in ev[2]]
                ints = [x for x in xs if isinstance(x, I) and x.ty == 'u64']
                accs = [x.name for x in xs if isinstance(x, H.Acct)]
                amts.append((ints[-1].t if ints else None, accs))
            ok_shape = len(amts) == 2 and all(a is not None for a, _ in amts)
            o = M.Obligation(f'{tag}:path{i}:two_payouts', p.pc, TRUE if ok_shape else FALSE, note=str([x[1] for x in amts])); o.replay = None; obls.append(o)
            if not ok_shape: continue
            o = M.Obligation(f'{tag}:path{i}:pays_exactly_owed', p.pc, T.and_(T.cmp('=', amts[0][0], owed_a), T.cmp('=', amts[1][0], owed_b)),
                             note='transfer amounts equal protocol_fee_owed_a / _b of the pre-state'); o.replay = None; obls.append(o)
            va, vb = ('token_vault_a' in amts[0][1] and 'token_destination_a' in amts[0][1]), ('token_vault_b' in amts[1][1] and 'token_destination_b' in amts[1][1])
            o = M.Obligation(f'{tag}:path{i}:from_pool_vaults_to_destinations', p.pc, TRUE if (va and vb) else FALSE, note=str([x[1] for x in amts])); o.replay = None; obls.append(o)
        # the all-Ok path is explored last and runs on the original account cells: read the pool's final state from them
        if n_ok == 1:
            post = wcell.data
            o = M.Obligation(f'{tag}:owed_reset_to_zero', [], T.and_(T.cmp('=', post.get('protocol_fee_owed_a').t, C(0)), T.cmp('=', post.get('protocol_fee_owed_b').t, C(0))),
                             note='after a successful collection both owed amounts are zero'); o.replay = None; obls.append(o)
        ctx.extra[tag] = {'ok_paths': n_ok}
        ctx.functions.update(e.executed)
        ctx.add(f'M:{tag}:vacuity', 'M', 'discharged' if n_ok else 'fault', 0, f'{n_ok} successful paths', False)
        ctx.discharge(obls)
    return task


def run(ctx):
    ctx.mir()
    keep = ('fee_formula', 'd_complete', 'f_no_wrap', 'a_direction')
    tasks = [('fees', fees_task)] + [(f"step:{'in' if ei else 'out'}:{'a2b' if ab else 'b2a'}", c02.step_task(ei, ab, keep))
                                     for ei in (True, False) for ab in (True, False)]
    from props import c17, c03
    # the fee split inside the swap loop (W* obligations: every step's fee is split on that step's liquidity; totals handed over)
    tasks += [c03.config_task(ei, ab, 'explicit', 0) for ei in (True, False) for ab in (True, False)]
    tasks += [('update_after_swap', update_after_swap_task), ('collect_protocol_fees', collect_protocol_fees_task(False)),
              ('collect_protocol_fees_v2', collect_protocol_fees_task(True)), ('handler:single', c17.single_task(False))]
    from props import c14w       # adaptive-fee pools: every step is charged the rate the manager returns in THAT iteration (A2)
    tasks += c14w.tasks()
    ctx.parallel(tasks, max_procs=8)
    ctx.run_kani(['c06.rs'])
