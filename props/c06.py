"""C06 — trader input splits exactly into curve amount, protocol share and LP share (Engines M + K)."""
import time, os
from vlib import term as T, mirsmt as M, specs as SP
from vlib.term import C, TRUE, FALSE
from vlib.mirsmt import I, B, Path, Panic
from props import c02

ID = 'C06'
LEVEL = 'model_checking'
TECHNIQUE = 'symbolic execution of rustc MIR into integer SMT (z3 5.1 NIA) for the fee formulas; Kani/CBMC for the state update and payout glue'
FUNCTIONS = ['math::swap_math::compute_swap (fee formula)', 'manager::swap_manager::calculate_fees', 'manager::swap_manager::calculate_protocol_fee']
BOUNDS = ['single step / single call; all u64 amounts, fee 0..=100000, protocol fee rate 0..=2500, liquidity all u128']
ASSUMPTIONS = c02.ASSUMPTIONS + ['protocol_fee_rate <= 2500 (C19 invariant of every writer)']
OUTSIDE = ['accumulation over the steps of one swap is decided in C03 (bounded unrolling of the loop)',
           'v2 event fields with transfer fees (C16)']
EXPLANATION = 'fee formula per step from compute_swap MIR; protocol cut and LP growth from calculate_fees MIR; owed update / payout by Kani'


def fees_task(ctx):
    T.reset()
    e = M.Engine(ctx.mir())
    fee = T.var('fee', 0, 2**64 - 1); rate = T.var('rate', 0, 2500); L = T.var('L', 0, 2**128 - 1)
    pf = T.var('pf', 0, 2**64 - 1); g = T.var('g', 0, 2**128 - 1)
    args = [fee, rate, L, pf, g]
    W64 = C(1 << 64)

    def goals(fee, rate, L, pf, g, npf, ng):
        cut = T.div(T.mul(fee, rate), C(10000))
        gl = {}
        gl['protocol_cut_floor'] = T.cmp('=', npf, T.mod(T.add(pf, cut), W64))
        lp = T.sub(fee, cut)
        # growth' = growth + floor(lp * 2^64 / L)  (mod 2^128), untouched when L == 0
        d = T.mod(T.sub(ng, g), C(1 << 128))
        gl['lp_growth_floor'] = T.ite(T.cmp('=', L, C(0)), T.cmp('=', ng, g),
                                      T.and_(T.cmp('<=', T.mul(d, L), T.mul(lp, W64)), T.cmp('>', T.mul(T.add(d, C(1)), L), T.mul(lp, W64))))
        gl['cut_at_most_fee'] = T.cmp('<=', cut, fee)
        return gl

    def mk_check(name):
        def check(vals, out):
            p = out.split()
            if p[0] != 'Ok': return False
            cs = [C(v) for v in vals] + [C(int(p[1])), C(int(p[2]))]
            return bool(T.evaluate(goals(*cs)[name], {}))
        return check

    obls = []
    outs = list(e.run('swap_manager::calculate_fees', [I(fee, 'u64'), I(rate, 'u16'), I(L, 'u128'), I(pf, 'u64'), I(g, 'u128')], Path()))
    wit = 0
    for i, (path, r) in enumerate(outs):
        if isinstance(r, Panic):
            o = M.Obligation(f'fees:path{i}:no_panic', path.pc, FALSE, note=r.msg); o.nontrivial = False
            o.replay = dict(fn='calculate_fees', args=args, check=lambda v, out: out != 'Panic')
            obls.append(o); continue
        npf, ng = r.get('0').t, r.get('1').t
        gl = goals(fee, rate, L, pf, g, npf, ng)
        nw = [ev[3] for ev in path.trace if ev[1] == 'nowrap']
        if nw: gl['no_wrap'] = T.and_(*nw)
        for name, gg in gl.items():
            o = M.Obligation(f'fees:path{i}:{name}', path.pc, gg)
            o.replay = dict(fn='calculate_fees', args=args, check=mk_check(name) if name != 'no_wrap' else (lambda v, out: out != 'Panic'))
            obls.append(o)
    ctx.extra['paths'] = {'outcomes': len(outs)}
    ctx.functions.update(e.executed)
    ctx.discharge(obls)
    # twin: claiming the protocol cut is rounded UP must be refuted
    tw = None
    for i, (path, r) in enumerate(outs):
        if isinstance(r, Panic): continue
        npf = r.get('0').t
        tw = M.Obligation('fees:twin_cut_rounds_up', path.pc, T.cmp('>=', T.mul(T.mod(T.sub(npf, pf), W64), C(10000)), T.mul(fee, rate)))
        tw.replay = dict(fn='calculate_fees', args=args,
                         check=lambda v, out: ((int(out.split()[1]) - v[3]) % 2**64) * 10000 >= v[0] * v[1])
        M.discharge([tw], 60, 1, os.path.join(ctx.logdir, 'smt_twin'))
        if tw.verdict == 'sat': break
    from vlib import replay_m
    if tw is None or tw.verdict != 'sat':
        ctx.add('M:fees:twin', 'M', 'fault', 0, 'vacuity twin was not refuted', False)
    else:
        v, info = replay_m.replay(tw, os.path.join(ctx.logdir, 'mreplay.log'))
        ctx.add('M:fees:twin', 'M', 'discharged' if v == 'violates' else 'fault', tw.time, info, False,
                {'obligation': tw.key, 'verdict': 'sat (as required)', 'native': info})


def run(ctx):
    ctx.mir()
    keep = ('fee_formula', 'd_complete', 'f_no_wrap', 'a_direction')
    tasks = [('fees', fees_task)] + [(f"step:{'in' if ei else 'out'}:{'a2b' if ab else 'b2a'}", c02.step_task(ei, ab, keep))
                                     for ei in (True, False) for ab in (True, False)]
    ctx.parallel(tasks, max_procs=5)
    ctx.run_kani(['c06.rs'])
