"""C12 — Pinocchio fast path ≡ Anchor implementation (translation validation, Engine K; tick offset for a symbolic spacing: Engine M)."""
ID = 'C12'
LEVEL = 'translation_validation'
TECHNIQUE = ('differential bounded model checking of the compiled code (Kani/CBMC, SAT): both implementations run on the '
             'same symbolic account bytes / arguments; same Ok fields, same error code, byte-identical post-state. '
             'Composition by assume-guarantee: leaf pairs are decided on their own, the composed harness summarises two of them. '
             'Tick offset for a SYMBOLIC tick spacing: both implementations executed from their MIR into integer SMT (z3 5.1), every Pinocchio path paired with every Anchor path, '
             'instances of monotonicity of multiplication supplied as hints (props/c12m.py).')

# compared pairs: Pinocchio item  <->  Anchor item   [harness]
FUNCTIONS = [
    # memory-mapped views vs Anchor account types
    'pinocchio::state::whirlpool::MemoryMappedWhirlpool::{tick_spacing, liquidity, sqrt_price, tick_current_index, token_mint_a/b, token_vault_a/b, '
    'fee_growth_global_a/b, reward_last_updated_timestamp} + DISCRIMINATOR <-> state::Whirlpool::try_deserialize (AccountDeserialize) [c12_view_whirlpool_read]',
    'MemoryMappedWhirlpoolRewardInfo::{mint, vault, extension, emissions_per_second_x64, growth_global_x64, initialized} <-> Whirlpool.reward_infos[i] / '
    'WhirlpoolRewardInfo::initialized [c12_view_whirlpool_read_rewards]',
    'MemoryMappedWhirlpool::seeds <-> Whirlpool::seeds [c12_view_whirlpool_seeds]',
    'MemoryMappedWhirlpool::update_liquidity_and_reward_growth_global (set_liquidity, set_reward_growth_global, set_reward_last_updated_timestamp) <-> '
    'Whirlpool::update_rewards_and_liquidity + AccountSerialize::try_serialize [c12_view_whirlpool_write]',
    'MemoryMappedPosition::{whirlpool, position_mint, liquidity, tick_lower/upper_index, fee_growth_checkpoint_a/b, fee_owed_a/b, reward_infos} + '
    'MemoryMappedPositionRewardInfo::{growth_inside_checkpoint, amount_owed} + DISCRIMINATOR <-> state::Position::try_deserialize [c12_view_position_read]',
    'MemoryMappedPosition::update (all private setters) <-> Position::update + try_serialize [c12_view_position_update]',
    'MemoryMappedTick::{initialized, liquidity_net, liquidity_gross, fee_growth_outside_a/b, reward_growths_outside, update} <-> zero-copy state::Tick fields / '
    'Tick::update [c12_view_tick_read_write]',
    'pinocchio TickArray::{check_is_usable_tick_and_get_offset, get_tick (slot address), tick_offset, in_search_range, check_in_array_bounds, is_min_tick_array, '
    'is_max_tick_array, start_tick_index} on MemoryMappedFixedTickArray / MemoryMappedDynamicTickArray <-> TickArrayType::{check_in_array_bounds, tick_offset, '
    'in_search_range, is_min/max_tick_array} + Tick::check_is_usable_tick + &FixedTickArray.ticks[i] [c12_tick_offset_pino_spec, c12_tick_offset_equiv_*]',
    'MemoryMappedDynamicTickArray::{start_tick_index, whirlpool, is_variable_size, tick_bitmap, byte_offset} <-> DynamicTickArrayLoader::{…} [c12_view_dynamic_header]',
    'pinocchio::state::token::MemoryMappedTokenAccount::{mint, owner, amount, delegate, delegated_amount, is_frozen} + ported::util_shared::pino_is_locked_position '
    '<-> spl_token::state::Account::unpack / is_frozen [c12_view_token_account_read]',
    # ported functions
    'ported::util_shared::pino_verify_position_authority (+ pino_validate_owner) <-> util::verify_position_authority / validate_owner [c12_verify_position_authority_equiv]',
    'pino_next_tick_modify_liquidity_update <-> manager::tick_manager::next_tick_modify_liquidity_update [c12_tick_modify_equiv]',
    'pino_next_fee_growths_inside <-> tick_manager::next_fee_growths_inside [c12_fee_growths_inside_equiv]',
    'pino_next_reward_growths_inside <-> tick_manager::next_reward_growths_inside [c12_reward_growths_inside_equiv]',
    'pino_next_position_modify_liquidity_update (verif_ wrapper) <-> manager::position_manager::next_position_modify_liquidity_update [c12_position_modify_equiv]',
    'pino_next_whirlpool_liquidity (verif_ wrapper) <-> manager::whirlpool_manager::next_whirlpool_liquidity [c12_whirlpool_liquidity_equiv]',
    'pino_next_whirlpool_reward_growth_global (verif_ wrapper) <-> whirlpool_manager::next_whirlpool_reward_infos [c12_reward_growth_global_equiv]',
    'pino_calculate_modify_tick_array (verif_ wrapper) <-> manager::tick_array_manager::calculate_modify_tick_array [c12_modify_tick_array_equiv]',
    'pino_calculate_liquidity_token_deltas <-> manager::liquidity_manager::calculate_liquidity_token_deltas [c12_liquidity_token_deltas_equiv]',
    'pino_calculate_modify_liquidity (+ private _pino_calculate_modify_liquidity) <-> liquidity_manager::calculate_modify_liquidity (+ _calculate_modify_liquidity) '
    '[c12_calculate_modify_liquidity_equiv]',
    'pino_sync_modify_liquidity_values <-> liquidity_manager::sync_modify_liquidity_values [c12_sync_modify_liquidity_equiv]',
]

BOUNDS = [
    'all 653 / 216 / 113 / 165 account bytes symbolic (discriminator fixed); all i128 deltas, u64 timestamps, i32 tick indexes; loop bounds from the code '
    '(3 rewards, 7-step shift-subtract division, 32-byte key compares)',
    'tick-offset differential vs Anchor (% and /): tick_spacing in {1,2,4,…,32768} ∪ {3, 7, 96, 100, 32896, 65535}, every tick index, every valid start index; '
    'for EVERY tick_spacing >= 1 the Pinocchio routine is decided against its multiplication spec (Some(off) ⇔ in bounds ∧ t − start = off·spacing ∧ off < 88); '
    'linking that spec to Anchor\'s % and / for a symbolic spacing is Euclid\'s division lemma, which bit-blasting does not close (> 900 s): decided by Engine M instead '
    '(offset_task: every spacing 1..65535, every i32 tick, every start = k*spacing in [MIN_TICK - 88*spacing, MAX_TICK]; 179 Pinocchio paths x Anchor paths, 532 obligations)',
    'fixed tick array: slot ADDRESSING is decided symbolically (returned reference == &FixedTickArray.ticks[off] == image + 12 + 113·off) and the per-tick data '
    'path on 113 bytes (MemoryMappedTick vs Tick); reading/writing tick data THROUGH the 9988-byte image does not terminate in CBMC (see OUTSIDE)',
    'composed harnesses take tick arrays as &dyn TickArray(Type) stand-ins (MockArr: one 113-byte tick, found / not-found, fixed / variable size, update requests '
    'recorded); memo tables of the uninterpreted functions: 6 entries (bound asserted)',
]

ASSUMPTIONS = [
    'bool bytes in accounts are 0/1 (every writer stores `as u8` of a bool)',
    'error conversions (From<ErrorCode> for anchor Error / UnifiedError) replaced by code-preserving stubs; message formatting (alloc::fmt::format) stubbed',
    'checked_mul_shift_right, checked_mul_div, get_amount_delta_a/b, sqrt_price_from_tick_index replaced by uninterpreted functions shared by both sides '
    '(same arguments ⇒ same arbitrary Ok/Err outcome; exact for d == 0 and for a zero factor): the arithmetic itself is decided by Engine M (C02, C06, C08, C09)',
    'invariant: an uninitialised reward (mint == default) has emissions_per_second_x64 == 0 — emissions are only written by set_reward_emissions(_v2) whose '
    'reward_vault constraint cannot hold for the zero vault key of an uninitialised reward; the Pinocchio port relies on it (skips on emissions == 0 where '
    'Anchor skips on !initialized)',
    'invariant: tick-array start index is valid for the pool spacing (Tick::check_is_valid_start_tick, enforced by initialize_tick_array / '
    'initialize_dynamic_tick_array); tick_spacing >= 1 (FeeTier / AdaptiveFeeTier)',
    'in c12_calculate_modify_liquidity_equiv the leaf pairs (next_whirlpool_reward_infos, pino_next_whirlpool_reward_growth_global) and '
    '(next_position_modify_liquidity_update, pino_next_position_modify_liquidity_update) are summarised by record/replay oracles (arbitrary outcome on the Anchor '
    'side, same outcome on the Pinocchio side iff called with the same arguments, else the harness fails); their equivalence is decided by '
    'c12_reward_growth_global_equiv and c12_position_modify_equiv',
    '§2 harnesses build the Anchor structs with hand-written field decoders; c12_view_whirlpool_read, c12_decode_whirlpool_manual_rewards and '
    'c12_decode_position_manual decide that these equal Whirlpool/Position::try_deserialize on all bytes',
    'token account images are those spl_token::state::Account::unpack accepts (initialised, well-formed COption tags)',
    'Anchor DynamicTickArrayLoader maps [u8; MAX_LEN] at data[8..]: 8 bytes beyond a MAX_LEN account are modelled as present (runtime realloc padding)',
]

OUTSIDE = [
    'CPI builders (account metas: pinocchio::cpi::*, pino_transfer_*), events; discriminator routing in entrypoint.rs uses Anchor constants by construction',
    'dynamic tick array tick DATA (get_tick / update_tick with rotate) — C13; here only header, bitmap and byte-offset map',
    'fixed tick array get_tick/update_tick DATA through the 9988-byte image (frame condition "no other byte written"): every formulation tried ran out of '
    'memory or time (90 M clauses with a symbolic slot; > 900 s / 40 GB with concrete slot 87). Decided instead: same slot address + same 113-byte tick codec',
    'MemoryMappedPosition::reset_position_range / is_position_empty / validate_tick_range_for_whirlpool vs Position::reset_position_range: harness over '
    'Account<Whirlpool> caught the seeded mutation (ignore reward 2) in 175 s but does not finish on the unchanged tree in 900 s — removed; '
    'keep_owed = true has no Anchor counterpart',
    'pino_calculate_fee_and_reward_growths as a separate pair (thin wrapper: the composed private function with delta 0, covered by c12_calculate_modify_liquidity_equiv)',
    'pino_update_tick_array_accounts, pino_ensure_position_has_enough_rent_for_ticks (lamport moves / realloc / Rent sysvar), pino_parse_remaining_accounts, '
    'pino_calculate_transfer_fee_* (C16), loader.rs (account loading: C04p prefixes)',
]


def run(ctx):
    from props import c12m
    ctx.mir()
    ctx.parallel([('offset', c12m.offset_task)], max_procs=1)
    # c13.rs: the `prop=C13,C12,C05` harness (Pinocchio dynamic tick array update_tick on a two-operation history; dynamic tick DATA is otherwise C13's part)
    ctx.run_kani(['c12.rs'] + (['c13.rs'] if ctx.tier == 'thorough' else []))      # the 20 GB dynamic-array history harness exceeds the quick budget: thorough tier only (C13's quick tier runs its core)
