"""C12 — Pinocchio fast path ≡ Anchor implementation (translation validation, Engine K)."""
ID = 'C12'
LEVEL = 'translation_validation'
FUNCTIONS = []
ASSUMPTIONS = [
    'bool bytes in accounts are 0/1 (every writer stores `as u8` of a bool)',
    'error conversions replaced by code-preserving stubs; message formatting stubbed',
]
OUTSIDE = ['CPI builders (account metas); discriminator routing uses Anchor constants by construction']


def run(ctx):
    ctx.run_kani(['c12.rs'])
