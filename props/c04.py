"""C04 — only the designated authority can move a position's funds or change settings (Engine K)."""
ID = 'C04'
LEVEL = 'model_checking'
TECHNIQUE = 'bounded model checking of the compiled code (Kani/CBMC, SAT): Anchor-generated try_accounts + handlers and Pinocchio handler prefixes over symbolic keys, signer flags and account bytes'
FUNCTIONS = []
BOUNDS = ['keys, signer flags and relevant account fields fully symbolic; account data sizes fixed to the real LEN of each account type']
ASSUMPTIONS = [
    'error conversions replaced by code-preserving stubs; message formatting stubbed',
    'sysvar syscalls (Clock/Rent) stubbed: prefix harnesses stop at the first sysvar call',
    'PDA derivation (sha256 + curve check) is not executed symbolically: structs with seeds= are checked up to the PDA comparison with an ideal-hash stub or excluded (listed in OUTSIDE)',
]
OUTSIDE = ['account bytes unchanged on failure (runtime guarantee, not program code)',
           'init-constraint instructions are checked up to the first System-program CPI']


def run(ctx):
    ctx.run_kani(['c04.rs', 'c04p.rs', 'c15.rs'])
