"""C04 — only the designated authority can move a position's funds or change settings (Engine K)."""
ID = 'C04'
LEVEL = 'model_checking'
TECHNIQUE = ('bounded model checking of the compiled code (Kani/CBMC, SAT): Anchor-generated try_accounts + handlers and Pinocchio handler prefixes over symbolic keys, signer flags and account bytes; '
             'symbolic execution of the MIR of the Anchor-generated try_accounts (22 struct tasks: every has_one / address / constraint / mut / Signer check executed, Anchor library loaders as summaries) and of the payout / '
             'Pinocchio liquidity handlers in handler mode into integer SMT (z3 5.1): relations demanded by the property on every accepting path')
FUNCTIONS = [
    'Anchor-generated <Accounts>::try_accounts + instructions::*::handler of the instructions in the coverage table (k/src/c04.rs, k/src/c15.rs)',
    'pinocchio::instructions::{increase_liquidity, decrease_liquidity, increase_liquidity_v2, decrease_liquidity_v2, increase_liquidity_by_token_amounts_v2, reposition_liquidity_v2}::handler (prefix up to Clock::get; tick-array loading up to pino_calculate_modify_liquidity)',
    'pinocchio AccountIterator::*, load_account(_mut), load_token_program_account, load_tick_array(_mut), TickArraysMut::load, verify_address, verify_constraint',
    'pino_verify_position_authority, util::verify_position_authority(_interface), util::validate_owner',
    'Engine M handler mode: instructions::{collect_fees, collect_reward, two_hop_swap}(::v2)::handler, pinocchio liquidity handlers (call order and arguments)',
    'Engine M on generated code: <{CollectFees, CollectFeesV2, CollectReward(V2) x index 0..2, CollectProtocolFees(V2), Swap, SwapV2, UpdateFeesAndRewards, ClosePosition, SetRewardEmissions(V2) x index 0..2} as Accounts>::try_accounts',
]
BOUNDS = ['unwind 34-40; Pinocchio v2/reposition instruction data: every argument byte symbolic, enum/option tag bytes fixed to 0 (method variant 0, remaining_accounts_info = None); handler-level tick arrays are 148-byte accounts behind a recording loader model, the real loader is decided separately on one 10 004-byte symbolic account',
          'keys, signer flags and relevant account fields fully symbolic; account data sizes fixed to the real LEN of each account type']
ASSUMPTIONS = [
    'c15m (Engine M): the Anchor LIBRARY loaders (<Account<T> / Signer / Program / ... as Accounts>::try_accounts) hand out the next account with symbolic key, data of the field type and flags, or fail; Signer implies is_signer (Anchor contract); named Pubkey constants are fixed distinct values',
    'init structs: Rent::get returns Rent::default(); System-program create_account/transfer/allocate/assign are nondeterministic Ok/Err stubs (signature checks not modelled); find_program_address is an ideal-hash memo (<= 6 seeds of <= 32 bytes, <= 4 derivations)',
    'reward_index < 3 in the emissions / collect_reward harnesses (index >= 3 panics on array indexing: the transaction aborts); not-yet-migrated pool for migrate_repurpose_reward_authority_space; Token-2022 mints / vaults without extensions (82 / 165 bytes)',
    'error conversions replaced by code-preserving stubs; message formatting stubbed',
    'sysvar syscalls (Clock/Rent) stubbed: prefix harnesses stop at the first sysvar call',
    'PDA derivation (sha256 + curve check) is not executed symbolically: structs with seeds= are checked up to the PDA comparison with an ideal-hash stub or excluded (listed in OUTSIDE)',
]
OUTSIDE = ['reposition_liquidity_v2 second range (existing range processed, then the new range): timed out at 900 s; same call site as the decided first range', 'non-None remaining_accounts_info in the Pinocchio handlers; owner-account mints (checked by the SPL token programs); CPIs after the cut',
           'account bytes unchanged on failure (runtime guarantee, not program code)',
           'init-constraint instructions are checked up to the first System-program CPI']


# instruction -> harnesses that decide its authority / account constraints; None = no privileged authority by design (anyone may call it; token movements
# are authorised by the SPL token program through the token accounts' owner); 'GAP: ...' = known, documented gap
COVERAGE = {
    'initialize_config': ['c04_initialize_config'], 'initialize_fee_tier': ['c04_initialize_fee_tier'], 'initialize_adaptive_fee_tier': ['c04_initialize_adaptive_fee_tier'],
    'initialize_config_extension': ['c04_initialize_config_extension'], 'initialize_token_badge': ['c04_initialize_token_badge'], 'delete_token_badge': ['c04_delete_token_badge'],
    'set_token_badge_attribute': ['c04_set_token_badge_attribute'], 'set_token_badge_authority': ['c04_set_token_badge_authority'],
    'set_config_extension_authority': ['c04_set_config_extension_authority'], 'set_config_feature_flag': ['c04_set_config_feature_flag'],
    'set_fee_rate': ['c04_set_fee_rate'], 'set_protocol_fee_rate': ['c04_set_protocol_fee_rate'], 'set_default_fee_rate': ['c04_set_default_fee_rate'],
    'set_default_protocol_fee_rate': ['c04_set_default_protocol_fee_rate'], 'set_fee_authority': ['c04_set_fee_authority'],
    'set_collect_protocol_fees_authority': ['c04_set_collect_protocol_fees_authority'], 'set_reward_authority': ['c04_set_reward_authority'],
    'set_reward_authority_by_super_authority': ['c04_set_reward_authority_by_super_authority'], 'set_reward_emissions_super_authority': ['c04_set_reward_emissions_super_authority'],
    'set_reward_emissions': ['c04_set_reward_emissions'], 'set_reward_emissions_v2': ['c04_set_reward_emissions_v2'], 'initialize_reward_v2': ['c04_initialize_reward_v2'],
    'initialize_reward': 'GAP: the 8-account struct with token-account init does not finish in 900 s (the v2 twin, same authority clause, is covered)',
    'set_default_base_fee_rate': ['c04_set_default_base_fee_rate'], 'set_delegated_fee_authority': ['c04_set_delegated_fee_authority'],
    'set_initialize_pool_authority': ['c04_set_initialize_pool_authority'], 'set_preset_adaptive_fee_constants': ['c04_set_preset_adaptive_fee_constants'],
    'set_fee_rate_by_delegated_fee_authority': ['c04_set_fee_rate_by_delegated_fee_authority'], 'set_adaptive_fee_constants': ['c04_set_adaptive_fee_constants'],
    'initialize_pool_with_adaptive_fee': ['c04_initialize_pool_authority_rule'],
    'migrate_repurpose_reward_authority_space': ['c04_migrate_repurpose_reward_authority_space'],
    'collect_fees': ['c15_collect_fees_accounts', 'M:handler:collect_fees'], 'collect_fees_v2': ['c15_collect_fees_v2'], 'collect_reward': ['c15_collect_reward_accounts', 'M:handler:collect_reward'], 'collect_reward_v2': ['c15_collect_reward_v2_accounts', 'M:handler:collect_reward_v2'],
    'collect_protocol_fees': ['c15_collect_protocol_fees_accounts'], 'collect_protocol_fees_v2': ['c15_collect_protocol_fees_v2'],
    'close_position': ['c15_close_position'], 'close_position_with_token_extensions': ['c15_close_position_with_token_extensions'],
    'open_bundled_position': ['c15_open_bundled_position_handler'], 'close_bundled_position': ['c15_close_bundled_position'], 'delete_position_bundle': ['c15_delete_position_bundle'],
    'lock_position': 'GAP: the LockPosition accounts struct (init + System CPIs) runs out of memory under CBMC; its handler-level clauses are in C18', 'reset_position_range': ['c15_reset_position_range'], 'transfer_locked_position': ['c15_transfer_locked_position_accounts'],
    'increase_liquidity': ['c04p_increase_liquidity_prefix'], 'decrease_liquidity': ['c04p_decrease_liquidity_prefix'],
    'increase_liquidity_v2': ['c04p_increase_liquidity_v2_prefix'], 'decrease_liquidity_v2': ['c04p_decrease_liquidity_v2_prefix'],
    'increase_liquidity_by_token_amounts_v2': ['c04p_increase_liquidity_by_token_amounts_v2_prefix'], 'reposition_liquidity_v2': ['c04p_reposition_liquidity_v2_prefix'],
    'swap': ['c15_swap_accounts'], 'swap_v2': ['c15_swap_v2_accounts'], 'two_hop_swap': ['M:handler:two_hop'], 'two_hop_swap_v2': ['M:handler:two_hop_v2'],
    'update_fees_and_rewards': ['c15_update_fees_and_rewards_accounts'],
    'initialize_pool': None, 'initialize_pool_v2': None, 'initialize_tick_array': None, 'initialize_dynamic_tick_array': None,
    'open_position': None, 'open_position_with_metadata': None, 'open_position_with_token_extensions': None,
    'initialize_position_bundle': None, 'initialize_position_bundle_with_metadata': None, 'idl_include': None,
}


def coverage_check(ctx, files):
    """every instruction of the program (Anchor dispatch table and Pinocchio table) is mapped to a harness that exists, or is declared unprivileged / a known gap;
    an instruction that appears in the source but not in the table is a coverage gap (machinery fault), so a new instruction cannot silently escape"""
    import os, re
    from vlib import kani as K, mirsmt as M
    src = open(os.path.join(M.REPO, 'programs/whirlpool/src/lib.rs')).read()
    body = src[src.index('pub mod whirlpool'):]
    names = re.findall(r'\n    pub fn (\w+)\s*[<(]', body)
    ep = open(os.path.join(M.REPO, 'programs/whirlpool/src/entrypoint.rs')).read()
    pino = re.findall(r'pinocchio::instructions::(\w+)::handler', ep)
    have = {h.name for h in K.parse_harnesses(files)}
    missing, gaps = [], []
    for n in sorted(set(names) | set(pino)):
        if n not in COVERAGE: missing.append(n + ' (not in the coverage table)'); continue
        m = COVERAGE[n]
        if m is None: continue
        if isinstance(m, str): gaps.append(f'{n}: {m}'); continue
        for h in m:
            if h.startswith('M:'): continue        # decided by an Engine-M handler-mode task (props/mextra.py), not by a Kani harness
            if h not in have: missing.append(f'{n} -> harness {h} not found')
    ctx.extra['instruction_coverage'] = {'instructions': len(set(names) | set(pino)), 'pinocchio': sorted(set(pino)), 'known_gaps': gaps, 'unprivileged': sorted(k for k, v in COVERAGE.items() if v is None)}
    if missing:
        ctx.add('K:coverage_table', 'K', 'fault', 0, 'instructions without a harness: ' + '; '.join(missing), False)
    else:
        ctx.add('K:coverage_table', 'K', 'discharged', 0, f'{len(names)} Anchor + {len(pino)} Pinocchio instructions mapped', False)


def run(ctx):
    files = ['c04.rs', 'c04p.rs', 'c15.rs']
    if ctx.only is None: coverage_check(ctx, files)
    # Engine M (handler mode): the payout handlers verify the position authority before any transfer; Pinocchio handlers verify it before touching state
    from props import hm, pino, c15m      # c15m: Anchor-generated account validation from MIR (authority signed, exactly one position token of this position, ...)
    ctx.mir()
    ctx.parallel([('collect_fees', hm.collect_fees_task(False)), ('collect_fees_v2', hm.collect_fees_task(True)),
                  ('collect_reward', hm.collect_reward_task(False, 0)), ('collect_reward_v2', hm.collect_reward_task(True, 0))] + pino.tasks() + c15m.tasks(), max_procs=8)
    ctx.run_kani(files)
