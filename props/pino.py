"""Handler-mode (Engine M) execution of the Pinocchio liquidity handlers' bodies: every callee (account iterator, loaders, verifiers, ported managers, token
helpers) is a recording stub havocked by its return type; obligations are about how the real handler wires amounts: token maxima / minima apply to what the
user actually pays / receives, the transfers move exactly those amounts, authority is verified first."""
import re, os
from vlib import term as T, mirsmt as M, handler as H
from vlib.term import C, TRUE, FALSE
from vlib.mirsmt import I, B, S, E, Path, Panic, Opaque

U64 = 2**64 - 1
REC = [r'estimate_max_liquidity_from_token_amounts$', r'AccountIterator::<.*>::\w+$|AccountIterator::\w+$', r'load_account(_mut)?::<', r'load_token_program_account::<', r'verify_address$', r'verify_constraint$',
       r'MemoryMapped\w+::\w+$', r'pino_\w+$', r'Sysvar>::get$', r'to_timestamp_u64$', r'convert_to_liquidity_delta$', r'TickArraysMut::<.*>::\w+$|TickArraysMut::\w+$',
       r'try_from_slice$', r'Event::<.*>::emit$|Event::emit$', r'AccountInfo::\w+$', r'Index<.*>>::index$', r'Deref(Mut)?>::deref(_mut)?$', r'is_locked_position$',
       r'validate_tick_range\w*$', r'is_position_empty$']


def instruction_structs():
    """Anchor generates `instruction::<CamelCase>` argument structs from the #[program] functions: fields = the function's arguments after ctx, in order"""
    src = open(os.path.join(M.REPO, 'programs/whirlpool/src/lib.rs')).read()
    out = {}
    for m in re.finditer(r'pub fn (\w+)\s*(?:<[^>]*>)?\s*\((.*?)\)\s*->', src, re.S):
        args = [a.strip() for a in M.split_top(m.group(2)) if a.strip()]
        fields = []
        for a in args[1:]:
            mm = re.match(r'(\w+)\s*:\s*(.*)$', a, re.S)
            if mm: fields.append((mm.group(1), ' '.join(mm.group(2).split())))
        out[''.join(w.capitalize() for w in m.group(1).split('_'))] = fields
    return out


def run_pino(ctx, handler):
    T.reset()
    e = M.Engine(ctx.mir(), prune_ms=2000, max_steps=60000)
    H.install(e, record=REC)
    e.havoc.ix_structs = instruction_structs()
    outs = list(e.run(f'pinocchio::instructions::{handler}::handler', [Opaque('accounts'), Opaque('data')], Path()))
    return e, outs


def rets(e, p, rx):
    """(call args, returned value) pairs of recorded calls matching rx, in order"""
    out, pend = [], None
    for ev in p.trace:
        if ev[0] == 'call' and re.search(rx, ev[1]): pend = ev
        elif ev[0] == 'ret' and re.search(rx, ev[1]) and pend is not None:
            v = ev[2]
            if isinstance(v, E) and v.var in ('Ok', 'Some') and v.fields: v = v.fields[0]
            out.append(([H.snapshot(e, x) for x in pend[2]], v)); pend = None
    return out


def order_of(p, rxs):
    return [next(k for k, rx in enumerate(rxs) if re.search(rx, ev[1])) for ev in p.trace if ev[0] == 'call' and any(re.search(rx, ev[1]) for rx in rxs)]


def increase_task(handler):
    """increase_liquidity / increase_liquidity_v2: Ok => both transfer amounts are the (fee-included) token deltas and do not exceed token_max_a / token_max_b"""
    v2 = handler.endswith('_v2')
    def task(ctx):
        e, outs = run_pino(ctx, handler)
        obls = []; n_ok = 0
        for i, (p, r) in enumerate(outs):
            if isinstance(r, Panic) or not (isinstance(r, E) and r.var == 'Ok'): continue
            n_ok += 1
            def ob(name, goal, note=''):
                o = M.Obligation(f'{handler}:path{i}:{name}', p.pc, goal, note=note); o.replay = None; obls.append(o)
            data = rets(e, p, r'try_from_slice$')
            deltas = rets(e, p, r'pino_calculate_liquidity_token_deltas$')
            trs = rets(e, p, r'pino_transfer_from_owner_to_vault(_v2)?$')
            incl = rets(e, p, r'pino_calculate_transfer_fee_included_amount$')
            ok = len(data) == 1 and len(deltas) == 1 and len(trs) == 2 and (not v2 or len(incl) == 2)
            ob('shape', TRUE if ok else FALSE, f'{len(data)} arg decodes, {len(deltas)} delta computations, {len(trs)} transfers, {len(incl)} fee conversions')
            if not ok: continue
            d = data[0][1]; da, db = deltas[0][1].get('0').t, deltas[0][1].get('1').t
            ta = [x for x in trs[0][0] if isinstance(x, I) and x.ty == 'u64'][-1].t; tb = [x for x in trs[1][0] if isinstance(x, I) and x.ty == 'u64'][-1].t
            if v2:
                ia, ib = incl[0], incl[1]
                ob('fee_conversion_of_the_curve_deltas', T.and_(T.cmp('=', [x for x in ia[0] if isinstance(x, I)][-1].t, da), T.cmp('=', [x for x in ib[0] if isinstance(x, I)][-1].t, db)))
                pa, pb = ia[1].get('amount').t, ib[1].get('amount').t
            else:
                pa, pb = da, db
            ob('transfers_move_what_the_user_is_charged', T.and_(T.cmp('=', ta, pa), T.cmp('=', tb, pb)), 'deposit amounts = (fee-included) token deltas of the liquidity change')
            ob('token_max_respected', T.and_(T.cmp('<=', pa, d.get('token_max_a').t), T.cmp('<=', pb, d.get('token_max_b').t)), 'the call fails rather than exceed the caller\'s maximum')
            seq = order_of(p, [r'pino_verify_position_authority$', r'pino_sync_modify_liquidity_values$', r'pino_transfer_from_owner_to_vault(_v2)?$'])
            ob('authority_then_state_then_transfers', TRUE if seq == sorted(seq) and seq[:1] == [0] and 1 in seq else FALSE, str(seq))
            ld = rets(e, p, r'convert_to_liquidity_delta$')
            ob('liquidity_delta_from_the_argument', T.cmp('=', [x for x in ld[0][0] if isinstance(x, I)][0].t, d.get('liquidity_amount').t) if ld else FALSE)
        ctx.functions.update(e.executed)
        ctx.add(f'M:{handler}:vacuity', 'M', 'discharged' if n_ok else 'fault', 0, f'{n_ok} successful paths of {len(outs)}', False)
        ctx.discharge(obls)
    return task


def decrease_task(handler):
    """decrease_liquidity / decrease_liquidity_v2: Ok => the user receives at least token_min (v2: net of the transfer fee) and the vault pays exactly the curve deltas"""
    v2 = handler.endswith('_v2')
    def task(ctx):
        e, outs = run_pino(ctx, handler)
        obls = []; n_ok = 0
        for i, (p, r) in enumerate(outs):
            if isinstance(r, Panic) or not (isinstance(r, E) and r.var == 'Ok'): continue
            n_ok += 1
            def ob(name, goal, note=''):
                o = M.Obligation(f'{handler}:path{i}:{name}', p.pc, goal, note=note); o.replay = None; obls.append(o)
            data = rets(e, p, r'try_from_slice$')
            deltas = rets(e, p, r'pino_calculate_liquidity_token_deltas$')
            trs = rets(e, p, r'pino_transfer_from_vault_to_owner(_v2)?$')
            excl = rets(e, p, r'pino_calculate_transfer_fee_excluded_amount$')
            ok = len(data) == 1 and len(deltas) == 1 and len(trs) == 2 and (not v2 or len(excl) >= 2)
            ob('shape', TRUE if ok else FALSE, f'{len(data)} arg decodes, {len(deltas)} delta computations, {len(trs)} transfers, {len(excl)} fee conversions')
            if not ok: continue
            d = data[0][1]; da, db = deltas[0][1].get('0').t, deltas[0][1].get('1').t
            ta = [x for x in trs[0][0] if isinstance(x, I) and x.ty == 'u64'][-1].t; tb = [x for x in trs[1][0] if isinstance(x, I) and x.ty == 'u64'][-1].t
            ob('vault_pays_exactly_the_curve_deltas', T.and_(T.cmp('=', ta, da), T.cmp('=', tb, db)))
            if v2:
                ea, eb = excl[0], excl[1]
                ob('fee_conversion_of_the_curve_deltas', T.and_(T.cmp('=', [x for x in ea[0] if isinstance(x, I)][-1].t, da), T.cmp('=', [x for x in eb[0] if isinstance(x, I)][-1].t, db)))
                ra, rb = ea[1].get('amount').t, eb[1].get('amount').t
            else:
                ra, rb = da, db
            locked = rets(e, p, r'pino_is_locked_position$')
            ob('locked_position_refused', T.not_(locked[0][1].t) if (locked and isinstance(locked[0][1], B)) else FALSE, 'liquidity cannot be removed from a locked position')
            ob('token_min_respected_on_what_the_user_receives', T.and_(T.cmp('>=', ra, d.get('token_min_a').t), T.cmp('>=', rb, d.get('token_min_b').t)))
            seq = order_of(p, [r'pino_verify_position_authority$', r'pino_sync_modify_liquidity_values$', r'pino_transfer_from_vault_to_owner(_v2)?$'])
            ob('authority_then_state_then_transfers', TRUE if seq == sorted(seq) and seq[:1] == [0] and 1 in seq else FALSE, str(seq))
        ctx.functions.update(e.executed)
        ctx.add(f'M:{handler}:vacuity', 'M', 'discharged' if n_ok else 'fault', 0, f'{n_ok} successful paths of {len(outs)}', False)
        ctx.discharge(obls)
    return task


def by_token_amounts_task():
    """increase_liquidity_by_token_amounts_v2: liquidity is estimated from the maxima net of transfer fee; Ok => transfers = fee-included deltas <= the caller's maxima"""
    handler = 'increase_liquidity_by_token_amounts_v2'
    def task(ctx):
        e, outs = run_pino(ctx, handler)
        obls = []; n_ok = 0
        for i, (p, r) in enumerate(outs):
            if isinstance(r, Panic) or not (isinstance(r, E) and r.var == 'Ok'): continue
            n_ok += 1
            def ob(name, goal, note=''):
                o = M.Obligation(f'{handler}:path{i}:{name}', p.pc, goal, note=note); o.replay = None; obls.append(o)
            data = rets(e, p, r'try_from_slice$')
            deltas = rets(e, p, r'pino_calculate_liquidity_token_deltas$')
            trs = rets(e, p, r'pino_transfer_from_owner_to_vault(_v2)?$')
            incl = rets(e, p, r'pino_calculate_transfer_fee_included_amount$')
            excl = rets(e, p, r'pino_calculate_transfer_fee_excluded_amount$')
            est = rets(e, p, r'estimate_max_liquidity_from_token_amounts$')
            ok = len(data) == 1 and len(deltas) == 1 and len(trs) == 2 and len(incl) == 2 and len(excl) == 2
            ob('shape', TRUE if ok else FALSE, f'{len(deltas)} delta computations, {len(trs)} transfers, {len(incl)} included / {len(excl)} excluded conversions, {len(est)} estimates')
            if not ok: continue
            meth = data[0][1].get('method')
            tmax_a, tmax_b = meth.fields[0].t, meth.fields[1].t
            da, db = deltas[0][1].get('0').t, deltas[0][1].get('1').t
            ta = [x for x in trs[0][0] if isinstance(x, I) and x.ty == 'u64'][-1].t; tb = [x for x in trs[1][0] if isinstance(x, I) and x.ty == 'u64'][-1].t
            pa, pb = incl[0][1].get('amount').t, incl[1][1].get('amount').t
            ob('fee_conversion_of_the_curve_deltas', T.and_(T.cmp('=', [x for x in incl[0][0] if isinstance(x, I)][-1].t, da), T.cmp('=', [x for x in incl[1][0] if isinstance(x, I)][-1].t, db)))
            ob('transfers_move_what_the_user_is_charged', T.and_(T.cmp('=', ta, pa), T.cmp('=', tb, pb)))
            ob('token_max_respected', T.and_(T.cmp('<=', pa, tmax_a), T.cmp('<=', pb, tmax_b)))
            ob('liquidity_estimated_from_maxima_net_of_fee', T.and_(T.cmp('=', [x for x in excl[0][0] if isinstance(x, I)][-1].t, tmax_a), T.cmp('=', [x for x in excl[1][0] if isinstance(x, I)][-1].t, tmax_b)),
               'the maxima are first reduced by their transfer fee, the estimate runs on what the vault would receive')
            sp = rets(e, p, r'MemoryMappedWhirlpool::sqrt_price$')
            if sp and isinstance(sp[0][1], I):
                ob('pool_price_within_the_callers_price_bounds', T.and_(T.cmp('>=', sp[0][1].t, meth.fields[2].t), T.cmp('<=', sp[0][1].t, meth.fields[3].t)),
                   'min_sqrt_price <= pool sqrt_price <= max_sqrt_price, else PriceSlippageOutOfBounds')
            else:
                ob('pool_price_within_the_callers_price_bounds', FALSE, 'sqrt_price read not found')
            if est:
                ea = [x for x in est[0][0] if isinstance(x, I) and x.ty == 'u64']
                ob('estimate_runs_on_fee_excluded_maxima', T.and_(T.cmp('=', ea[-2].t, excl[0][1].get('amount').t), T.cmp('=', ea[-1].t, excl[1][1].get('amount').t)) if len(ea) >= 2 else FALSE)
        ctx.functions.update(e.executed)
        ctx.add(f'M:{handler}:vacuity', 'M', 'discharged' if n_ok else 'fault', 0, f'{n_ok} successful paths of {len(outs)}', False)
        ctx.discharge(obls)
    return task


def reposition_task():
    """reposition_liquidity_v2: locked positions are refused; all liquidity is withdrawn from the old range (minima on what the user would receive), the position is
    re-ranged in between, liquidity is added to the new range (maxima on requirement + fee), and only the net difference per token is transferred"""
    handler = 'reposition_liquidity_v2'
    EV_FIELDS = ['whirlpool', 'position', 'existing_range_tick_lower_index', 'existing_range_tick_upper_index', 'new_range_tick_lower_index', 'new_range_tick_upper_index',
                 'existing_range_liquidity', 'new_range_liquidity', 'existing_range_token_a_amount', 'existing_range_token_b_amount', 'new_range_token_a_amount',
                 'new_range_token_b_amount', 'token_a_transfer_amount', 'token_a_transfer_fee', 'is_token_a_transfer_from_owner', 'token_b_transfer_amount', 'token_b_transfer_fee',
                 'is_token_b_transfer_from_owner']
    def task(ctx):
        from vlib import handler as H2
        en = dict(H2.source_enums().get('Event', []))
        fields = [f for f, _ in (en.get('LiquidityRepositioned') or [])] or EV_FIELDS
        e, outs = run_pino(ctx, handler)
        obls = []; n_ok = 0
        for i, (p, r) in enumerate(outs):
            if isinstance(r, Panic) or not (isinstance(r, E) and r.var == 'Ok'): continue
            n_ok += 1
            def ob(name, goal, note=''):
                o = M.Obligation(f'{handler}:path{i}:{name}', p.pc, goal, note=note); o.replay = None; obls.append(o)
            data = rets(e, p, r'try_from_slice$')
            emits = [ev for ev in p.trace if ev[0] == 'call' and re.search(r'Event::<.*>::emit$|Event::emit$', ev[1])]
            evv = H.snapshot(e, emits[0][2][0]) if emits else None
            ok = len(data) == 1 and isinstance(evv, E) and evv.var == 'LiquidityRepositioned' and len(evv.fields) == len(fields)
            ob('shape', TRUE if ok else FALSE, f'{len(emits)} events')
            if not ok: continue
            F = dict(zip(fields, evv.fields))
            meth = data[0][1].get('method')
            new_liq, min_a, min_b, max_a, max_b = [x.t for x in meth.fields]
            locked = rets(e, p, r'pino_is_locked_position$')
            ob('locked_position_refused', T.not_(locked[0][1].t) if (locked and isinstance(locked[0][1], B)) else FALSE)
            incl = rets(e, p, r'pino_calculate_transfer_fee_included_amount$'); excl = rets(e, p, r'pino_calculate_transfer_fee_excluded_amount$')
            def conv(calls, amt):
                """list of (arg == amt, ret) for recorded conversions"""
                out = []
                for args, rv in calls:
                    a = [x for x in args if isinstance(x, I)]
                    if a and isinstance(rv, S): out.append((T.cmp('=', a[-1].t, amt), rv))
                return out
            for tok, mn, mx in (('a', min_a, max_a), ('b', min_b, max_b)):
                dec, inc = F[f'existing_range_token_{tok}_amount'].t, F[f'new_range_token_{tok}_amount'].t
                tr, from_owner = F[f'token_{tok}_transfer_amount'].t, F[f'is_token_{tok}_transfer_from_owner'].t
                c_ex = conv(excl, dec)
                ob(f'minimum_on_old_range_withdrawal_net_of_fee:{tok}', T.or_(*[T.and_(c, T.cmp('>=', rv.get('amount').t, mn)) for c, rv in c_ex]) if c_ex else FALSE)
                ob(f'direction_of_net_transfer:{tok}', T.beq(from_owner, T.not_(T.cmp('>', dec, inc))), 'user sends iff the new range needs at least what the old one returned')
                c_in = conv(incl, T.sub(inc, dec))
                send = T.or_(*[T.and_(c, T.cmp('=', tr, rv.get('amount').t), T.cmp('<=', T.add(inc, rv.get('transfer_fee').t), mx)) for c, rv in c_in]) if c_in else FALSE
                recv = T.and_(T.cmp('=', tr, T.sub(dec, inc)), T.cmp('<=', inc, mx))
                ob(f'net_amount_and_maximum:{tok}', T.ite(from_owner, send, recv),
                   'user sends the fee-included difference and (new requirement + its transfer fee) <= max; or receives exactly the difference and the new requirement <= max')
            ob('new_liquidity_from_the_argument', T.cmp('=', F['new_range_liquidity'].t, new_liq))
            seq = order_of(p, [r'pino_verify_position_authority$', r'pino_is_locked_position$', r'MemoryMappedPosition::reset_position_range$', r'pino_transfer_from_(owner_to_vault|vault_to_owner)_v2$'])
            ob('authority_lock_rerange_then_transfers', TRUE if seq == sorted(seq) and seq[:2] == [0, 1] and 2 in seq else FALSE, str(seq))
            # the CPI transfers move exactly the two net amounts of the event
            trs = rets(e, p, r'pino_transfer_from_(owner_to_vault|vault_to_owner)_v2$')
            amts = [[x for x in a if isinstance(x, I) and x.ty == 'u64'][-1].t for a, _ in trs]
            ob('transfers_are_the_net_amounts', T.and_(*[T.or_(T.cmp('=', x, F['token_a_transfer_amount'].t), T.cmp('=', x, F['token_b_transfer_amount'].t)) for x in amts]) if amts else TRUE, f'{len(amts)} transfers')
            lds = rets(e, p, r'convert_to_liquidity_delta$')
            modifies = len(rets(e, p, r'pino_sync_modify_liquidity_values$'))
            ob('old_range_fully_withdrawn_before_rerange', TRUE if (modifies in (1, 2) and len(lds) == modifies) else FALSE, f'{modifies} liquidity modifications')
            # (that the withdrawn amount is the position's whole liquidity is not stated here: the accessor `position.liquidity()` is an independent havoc per call)
        ctx.functions.update(e.executed)
        ctx.add(f'M:{handler}:vacuity', 'M', 'discharged' if n_ok else 'fault', 0, f'{n_ok} successful paths of {len(outs)}', False)
        ctx.discharge(obls)
    return task


def tasks():
    return [('pino:increase_liquidity', increase_task('increase_liquidity')), ('pino:increase_liquidity_v2', increase_task('increase_liquidity_v2')),
            ('pino:decrease_liquidity', decrease_task('decrease_liquidity')), ('pino:decrease_liquidity_v2', decrease_task('decrease_liquidity_v2')),
            ('pino:increase_liquidity_by_token_amounts_v2', by_token_amounts_task()), ('pino:reposition_liquidity_v2', reposition_task())]
