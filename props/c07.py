"""C07 — a position earns its pro-rata share of fees only while the price is in range (Engine K part: inductive lemmas)."""
ID = 'C07'
LEVEL = 'model_checking'
TECHNIQUE = ('Kani/CBMC on the compiled functions, wrapping u128 arithmetic at full width; lemmas L1 (growth at fixed tick), convention for '
             'uninitialised bounds, L2 (tick crossing), L3 ((re)initialisation), frame, L4 (credit structure), each for the Anchor function and its '
             'Pinocchio port on the same symbolic account bytes, tokens A and B')
FUNCTIONS = [
    'manager::tick_manager::next_fee_growths_inside', 'manager::tick_manager::next_tick_cross_update',
    'manager::tick_manager::next_tick_modify_liquidity_update', 'manager::position_manager::next_position_modify_liquidity_update',
    'pinocchio::ported::manager_liquidity_manager::pino_next_fee_growths_inside',
    'pinocchio::ported::manager_liquidity_manager::pino_next_tick_modify_liquidity_update',
    'pinocchio::ported::manager_liquidity_manager::pino_next_position_modify_liquidity_update',
]
BOUNDS = [
    'one step per lemma; all u128 accumulator / outside / checkpoint values incl. wrap-around; all i32 tick triples with lower < upper',
    'one harness per (implementation, token, placement of the current tick / crossed bound and direction): mixing cases in one SAT instance costs 10x',
    'unwind 34 (3 rewards -> 4; 32-byte key comparison -> 33)',
]
ASSUMPTIONS = [
    'C05 invariant on stored ticks where a lemma needs it: initialized <=> liquidity_gross != 0, and a tick bounding no position has liquidity_net == 0',
    'L2: the crossed tick is initialised and is the next initialised tick from the current tick in the direction of travel (C10), so no other initialised '
    'bound of the range lies in the jumped interval; tick shift as in the swap loop (a_to_b: cur >= t before, t - 1 after; b_to_a: cur < t before, t after)',
    'L4: checked_mul_shift_right is an uninterpreted function F (Ackermann encoding: outcomes drawn up front, equal arguments => equal outcome, zero '
    'factor => 0; any call with other arguments than (L, inside - checkpoint) is flagged); floor(L*d/2^64) and its u64 overflow are contract A1 (Engine M)',
    'proved intermediate facts (`hint`: assert, then assume) are used to shorten the SAT proofs',
    'error conversions replaced by code-preserving stubs; message formatting stubbed; bool bytes in accounts are 0/1',
]
OUTSIDE = [
    'composing the steps over unbounded histories and position sets into "credited fees = pro-rata share minus bounded rounding" is a written argument '
    '(DESIGN §4), not a solver verdict; the rounding bound itself is stated, not solver-derived',
    'L1/L2 are decided for ranges whose two bounds are initialised; a range with an uninitialised bound carries no liquidity (C05), and the convention '
    'lemma shows that the checkpoint taken at the first deposit is the `inside` of the freshly initialised range',
    'L5 (equal ranges => credits ordered like liquidities) is monotonicity of floor(L*d/2^64) in L: arithmetic, Engine M',
    'tick crossing exists only in the Anchor swap code; the Pinocchio L2 harnesses read ticks flipped by it',
]
EXPLANATION = 'fee_growth_outside bookkeeping lemmas: growth counts iff in range, crossing and (re)initialisation keep `inside`, credit = F(L, inside - checkpoint) or 0 on overflow'


TECHNIQUE = TECHNIQUE + '; complemented by Engine M (rustc MIR -> integer SMT, z3 5.1): collect_fees(_v2) handlers in handler mode (pay exactly fee_owed, reset), the credit leaf kernel, the swap-loop wiring of fee growth at crossings (W4)'


def run(ctx):
    # Engine M complement (props/mextra.py): the swap loop's crossing/fee/reward wiring (Floyd verification shared with C03) and, where relevant, the payout handlers and leaf kernels
    from props import mextra
    ctx.mir()
    ctx.parallel(mextra.c07_tasks(), max_procs=6)
    ctx.run_kani(['c07.rs'])
