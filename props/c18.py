"""C18 — positions are opened, closed, re-ranged, locked and bundled only consistently (Engine K)."""
ID = 'C18'
LEVEL = 'model_checking'
TECHNIQUE = ('bounded model checking of the compiled crate (Kani/CBMC, SAT; one leaf lemma with the SMT back end): '
             'state methods of both runtimes on symbolic account bytes (differential), Anchor-generated try_accounts + '
             'handlers up to the first CPI, Pinocchio handler prefixes over raw account memory, CPI recording stubs')
FUNCTIONS = [
    'state::position::validate_tick_range_for_whirlpool (via Position::open_position)',
    'pinocchio::state::whirlpool::position::validate_tick_range_for_whirlpool (via MemoryMappedPosition::reset_position_range)',
    'state::Tick::check_is_usable_tick, state::Tick::full_range_indexes',
    'state::Position::{open_position, reset_position_range, is_position_empty}',
    'pinocchio MemoryMappedPosition::{reset_position_range, is_position_empty} (keep_owed = false and true)',
    'util::shared::resolve_one_sided_position_ticks',
    'state::PositionBundle::{open_bundled_position, close_bundled_position, is_deletable}',
    'pinocchio::instructions::{decrease_liquidity, increase_liquidity}::handler (prefix up to Clock::get), pino_is_locked_position',
    'thorough: util::token::mint_position_token_and_remove_authority',
    'util::shared::is_locked_position vs pinocchio::ported::util_shared::pino_is_locked_position',
    'thorough: instructions::{close_position, close_position_with_token_extensions, close_bundled_position, reset_position_range}::handler '
    'behind the Anchor-generated try_accounts of their account structs',
    'thorough: instructions::lock_position::handler on a hand-built LockPosition (try_accounts not run), state::LockConfig::initialize',
]
BOUNDS = [
    'tick bounds: all i32; tick spacing: every u16 >= 1 with Tick::check_is_usable_tick abstracted (c18_validate_tick_range_any_spacing), '
    'and spacing in {1, 8, 64, 128, 32896} with the real remainder arithmetic (all other harnesses that validate a range)',
    'Position: every field symbolic (216 bytes); bundle bitmap: 32 symbolic bytes, index: any u16',
    'one-sided resolution: any i32 bounds, any sqrt price inside the price bounds, spacing in {1, 8, 64, 128, 32896}',
    'Pinocchio prefixes: keys/owners/flags of all 11 accounts and all bytes of the whirlpool, position and position token account symbolic; '
    'accounts whose data is not read before the Clock call have empty data',
    'Anchor handler harnesses: numeric account fields, signer flags, state bytes symbolic; address-valued fields are a symbolic choice '
    'between the expected address and one other address; reset handler: spacing in {64, 32896}, Token-2022 position token account',
    'loops unwound to 34/40 (32-byte keys and bitmaps, 3 rewards); no unwinding assertion may fail',
]
ASSUMPTIONS = [
    'tick_spacing >= 1 (every initialized pool); sqrt_price within [MIN_SQRT_PRICE_X64, MAX_SQRT_PRICE_X64]',
    'error conversions replaced by code-preserving stubs; message formatting stubbed',
    'c18_validate_tick_range_any_spacing: Tick::check_is_usable_tick replaced by an uninterpreted predicate (false outside the tick bounds); '
    'its definition (in bounds and t % spacing == 0) is c18_usable_tick_definition; two bit-blasted remainders by one symbolic divisor '
    'cannot be related by the SAT back end (measured)',
    'resolve_one_sided_position_ticks: sqrt_price_from_tick_index / tick_index_from_sqrt_price replaced by the contracts T1 (strictly '
    'monotone, end points fixed) and T2 (p(t) <= price < p(t+1)) from common::memo (decided for the real functions by C09)',
    'open_position is checked on the all-zero Position that Anchor `init` hands to the handlers',
    'Pinocchio prefixes: Clock::get stubbed (marks "all checks passed" and stops the handler)',
    'Anchor handlers: Pubkey::find_program_address returns an unconstrained (address, bump), i.e. the seeds check may pass or fail for any key '
    '(over-approximation); CPI helpers (burn_and_close_user_position_token[_2022]) and solana_program::program::invoke_signed replaced by '
    'recorders returning Ok (invoke_signed: Ok/Err as chosen by the harness); Rent sysvar = mainnet parameters; position account lamports >= its own '
    'rent exemption (runtime guarantee)',
    'SPL-Token position / bundle token accounts are in state Initialized (the program only freezes Token-2022 position accounts)',
]
OUTSIDE = [
    'multi-instruction lifecycles beyond per-instruction pre/post-conditions (e.g. "locked implies liquidity > 0" as an invariant over histories)',
    'Metaplex metadata CPIs; token-2022 mint initialisation CPIs and mint_position_token_2022_and_remove_authority',
    'what the Token programs do with the recorded CPIs (supply becomes 1, authority removed, account frozen)',
    'LockPosition::try_accounts (init + seeds: System-program CPI and sha256): its `!is_frozen()`, amount == 1 and mint constraints are transcribed '
    'as the precondition of c18_lock_position_handler, so "an already frozen account cannot be locked again" is not decided here; '
    'transfer_locked_position handler',
    'open_position* handlers as a whole (init constraints call the System program); their range logic is open_position + resolve_one_sided_position_ticks',
    'Pinocchio decrease_liquidity_v2 / reposition_liquidity_v2 prefixes (same lock check as decrease_liquidity; not run here)',
    'delete_position_bundle handler (is_deletable is decided at function level)',
    'usable-tick arithmetic for spacings outside {1, 8, 64, 128, 32896} against an independent (division-free) specification',
]
EXPLANATION = ('range validation agrees between runtimes and with the specification; reset/close require emptiness; bitmap flips exactly one bit; '
               'a frozen position token blocks decrease/close and does not block increase')


TECHNIQUE = TECHNIQUE + '; complemented by Engine M (rustc MIR -> integer SMT, z3 5.1): Pinocchio decrease (locked position refused) and reposition handlers in handler mode'


def run(ctx):
    # Engine M (handler mode) on the live Pinocchio handlers: locked positions cannot have liquidity removed or be re-ranged; re-ranging withdraws first, re-ranges, then adds
    from props import pino
    ctx.mir()
    ctx.parallel([('pino:decrease_liquidity', pino.decrease_task('decrease_liquidity')), ('pino:decrease_liquidity_v2', pino.decrease_task('decrease_liquidity_v2')),
                  ('pino:reposition_liquidity_v2', pino.reposition_task())], max_procs=3)
    ctx.run_kani(['c18.rs'])
