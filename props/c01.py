"""C01 — pool solvency: per-operation rounding inequalities decided by the solver on the real code, composition over histories written (DESIGN §4)."""
import time, os, re
from vlib import term as T, mirsmt as M, specs as SP
from vlib.term import C, TRUE, FALSE
from vlib.mirsmt import I, B, S, E, Path, Panic
from props import c02, c06, c08

ID = 'C01'
LEVEL = 'other'
TECHNIQUE = ('solver-decided local lemmas on the real code (rustc MIR -> integer SMT, z3 5.1): every operation that moves tokens or creates a claim rounds against '
             'the actor by comparison with the exact rational amount; the composition of these lemmas over unbounded histories and position sets is a written '
             'potential-function argument, not a solver verdict')
FUNCTIONS = ['instructions::collect_fees::handler', 'instructions::v2::collect_fees::handler', 'instructions::collect_protocol_fees::handler', 'instructions::v2::collect_protocol_fees::handler', 'math::swap_math::compute_swap', 'manager::swap_manager::calculate_fees', 'manager::liquidity_manager::calculate_liquidity_token_deltas',
             'pinocchio::ported::manager_liquidity_manager::pino_calculate_liquidity_token_deltas', 'math::bit_math::checked_mul_shift_right_round_up_if',
             'manager::swap_manager::swap (loop accounting, via C03)']
BOUNDS = ['one operation from an arbitrary state (inductive step); all u64 amounts, all u128 liquidity, all in-bound prices',
          'round trips: two consecutive steps inside one constant-liquidity segment, any direction pair and any mode pair (the lemma uses only the C02(b) facts)']
ASSUMPTIONS = c08.ASSUMPTIONS + [
    'C05: pool.liquidity equals the sum of the liquidity of positions in range (decided per step in C05)',
    'C03/C06: the totals returned by swap() are the sums of its steps and the handlers transfer exactly those totals',
    'summation over positions: the inductive step (adding one position to a set) is solver-decided (O5:summation_inductive_step); written, not solver-decided: (ii) telescoping of exact amounts over steps and tick '
    'crossings: the exact reserves R_A(p) = sum_i claim_A(i, p), R_B(p) are functions of the price only, every step changes the vault by at least the change of R, hence '
    'vault >= protocol_owed + fees_owed + R at every prefix; (iii) a pure trader ends with net_A <= R_A(p_start) - R_A(p_end) and net_B likewise, which cannot both be >= 0 with one > 0',
]
OUTSIDE = ['the summation over positions and the telescoping over steps (written argument above)', 'transfer-fee tokens (C16)', 'reward vaults (C11)',
           'that the listed operations are the only writers of vault balances (account constraints: C15)']
EXPLANATION = ('O1/O2 deposit >= exact >= withdrawal (C08 obligations on both runtimes), O3 step input >= exact, output <= exact (C02 b), O4 protocol cut + LP growth * L <= fee, '
               'O5 position credit is a floor and 0 on overflow, O6 two-step round trip inside a segment never gains')

W64 = C(1 << 64)
MINP, MAXP = SP.MINP, SP.MAXP


def o4_task(ctx):
    """calculate_fees: what the step adds to protocol_fee_owed plus what the growth increment can ever credit to positions (growth * L / 2^64) never exceeds the fee taken"""
    T.reset()
    e = M.Engine(ctx.mir())
    fee = T.var('fee', 0, 2**64 - 1); rate = T.var('rate', 0, 2500); L = T.var('L', 0, 2**128 - 1)
    pf = T.var('pf', 0, 2**64 - 1); g = T.var('g', 0, 2**128 - 1)
    obls = []
    outs = list(e.run('swap_manager::calculate_fees', [I(fee, 'u64'), I(rate, 'u16'), I(L, 'u128'), I(pf, 'u64'), I(g, 'u128')], Path()))
    for i, (path, r) in enumerate(outs):
        if isinstance(r, Panic):
            o = M.Obligation(f'O4:path{i}:no_panic', path.pc, FALSE, note=r.msg); o.nontrivial = False
            o.replay = dict(fn='calculate_fees', args=[fee, rate, L, pf, g], check=lambda v, out: out != 'Panic'); obls.append(o); continue
        npf, ng = r.get('0').t, r.get('1').t
        cut = T.mod(T.sub(npf, pf), W64)
        d = T.mod(T.sub(ng, g), C(1 << 128))
        # claims created: cut + (d * L) / 2^64 (upper bound of the sum of the positions' floors) <= fee
        goal = T.cmp('<=', T.add(T.mul(cut, W64), T.mul(d, L)), T.mul(fee, W64))
        o = M.Obligation(f'O4:path{i}:claims_created_le_fee_taken', path.pc, goal)
        def chk(v, out):
            p = out.split()
            if p[0] != 'Ok': return False
            cutv = (int(p[1]) - v[3]) % 2**64; dv = (int(p[2]) - v[4]) % 2**128
            return cutv * 2**64 + dv * v[2] <= v[0] * 2**64
        o.replay = dict(fn='calculate_fees', args=[fee, rate, L, pf, g], check=chk)
        obls.append(o)
        o = M.Obligation(f'O4:path{i}:no_growth_without_liquidity', path.pc, T.implies(T.cmp('=', L, C(0)), T.cmp('=', ng, g)))
        o.replay = dict(fn='calculate_fees', args=[fee, rate, L, pf, g], check=lambda v, out: v[2] != 0 or int(out.split()[2]) == v[4])
        obls.append(o)
    ctx.functions.update(e.executed)
    ctx.discharge(obls)


def o6_task(ctx):
    """round trip inside one constant-liquidity segment, from the C02(b) facts alone: step 1 moves p0 -> p1, step 2 moves p1 -> p2 in the opposite direction;
    the trader never ends with more of one token and no less of the other"""
    T.reset()
    obls = []
    for first_a2b in (True, False):
        L = T.var('L', 0, 2**128 - 1)
        p0 = T.var('p0', MINP, MAXP); p1 = T.var('p1', MINP, MAXP); p2 = T.var('p2', MINP, MAXP)
        in1 = T.var('in1', 0, 2**64 - 1); out1 = T.var('out1', 0, 2**64 - 1); fee1 = T.var('fee1', 0, 2**64 - 1)
        in2 = T.var('in2', 0, 2**64 - 1); out2 = T.var('out2', 0, 2**64 - 1); fee2 = T.var('fee2', 0, 2**64 - 1)
        def facts(a2b, cur, nxt, ain, aout):
            lo, hi = (nxt, cur) if a2b else (cur, nxt)
            inN, inD = c02.amt_a(L, lo, hi) if a2b else c02.amt_b(L, lo, hi)
            outN, outD = c02.amt_b(L, lo, hi) if a2b else c02.amt_a(L, lo, hi)
            return [T.cmp('<=', lo, hi), T.cmp('>=', T.mul(ain, inD), inN), T.cmp('<=', T.mul(aout, outD), outN)]
        pre = facts(first_a2b, p0, p1, in1, out1) + facts(not first_a2b, p1, p2, in2, out2)
        if first_a2b:
            net_a = T.sub(out2, T.add(in1, fee1)); net_b = T.sub(out1, T.add(in2, fee2))
        else:
            net_b = T.sub(out2, T.add(in1, fee1)); net_a = T.sub(out1, T.add(in2, fee2))
        goal = T.and_(T.not_(T.and_(T.cmp('>', net_a, C(0)), T.cmp('>=', net_b, C(0)))),
                      T.not_(T.and_(T.cmp('>=', net_a, C(0)), T.cmp('>', net_b, C(0)))))
        o = M.Obligation(f"O6:roundtrip:{'a2b_then_b2a' if first_a2b else 'b2a_then_a2b'}:never_gains", pre, goal,
                         note='uses only: input >= exact amount of the move, output <= exact amount of the move (C02 b), fees >= 0')
        o.replay = None
        obls.append(o)
        # vacuity: the premises are satisfiable with a real move
        w = M.Obligation(f"O6:witness:{'a2b' if first_a2b else 'b2a'}", pre + [T.cmp('<', p1, p0) if first_a2b else T.cmp('>', p1, p0), T.cmp('>', L, C(0)), T.cmp('>', out1, C(0))], FALSE)
        M.discharge([w], 30, 1, os.path.join(ctx.logdir, 'smt_wit'))
        o.nontrivial = (w.verdict == 'sat')
    ctx.discharge(obls)
    # twin: dropping the "input rounded up" premise must make the claim refutable
    T.reset()
    L = T.var('L', 1, 2**128 - 1); p0 = T.var('p0', MINP, MAXP); p1 = T.var('p1', MINP, MAXP)
    in1 = T.var('in1', 0, 2**64 - 1); out1 = T.var('out1', 0, 2**64 - 1); in2 = T.var('in2', 0, 2**64 - 1); out2 = T.var('out2', 0, 2**64 - 1)
    NA, DA = c02.amt_a(L, p1, p0); NB, DB = c02.amt_b(L, p1, p0)
    pre = [T.cmp('<=', p1, p0), T.cmp('<=', T.mul(out1, DB), NB), T.cmp('>=', T.mul(in2, DB), NB), T.cmp('<=', T.mul(out2, DA), NA),
           T.cmp('>=', T.mul(T.add(in1, C(2)), DA), NA)]     # input may be up to two units BELOW the exact amount
    tw = M.Obligation('O6:twin_input_rounded_down', pre, T.not_(T.and_(T.cmp('>', T.sub(out2, in1), C(0)), T.cmp('>=', T.sub(out1, in2), C(0)))))
    M.discharge([tw], 60, 1, os.path.join(ctx.logdir, 'smt_twin'))
    ctx.add('M:O6:twin', 'M', 'discharged' if tw.verdict == 'sat' else 'fault', tw.time,
            'with the input rounded down the round trip can gain (as required)' if tw.verdict == 'sat' else 'twin not refuted', False)


def sum_task(ctx):
    """inductive step of the summation over positions (any number of positions): if the credits of a set of positions with total liquidity S are bounded by
    floor(S*d/2^64), adding one more position with liquidity Li keeps the bound for S+Li — so sum_i floor(L_i*d/2^64) <= floor(L*d/2^64) <= lp_fee for every
    position set whose liquidity sums to the in-range liquidity L (C05)"""
    T.reset()
    S_ = T.var('S_others', 0, 2**128 - 1); Li = T.var('L_i', 0, 2**128 - 1); d = T.var('growth_delta', 0, 2**128 - 1)
    credited = T.var('credited_others', 0, None)
    pre = [T.cmp('<=', T.add(S_, Li), C(2**128 - 1)), T.cmp('<=', credited, T.div(T.mul(S_, d), W64))]
    goal = T.cmp('<=', T.add(credited, T.div(T.mul(Li, d), W64)), T.div(T.mul(T.add(S_, Li), d), W64))
    o = M.Obligation('O5:summation_inductive_step', pre, goal, note='base case: no positions, 0 <= 0'); o.replay = None
    o2 = M.Obligation('O5:summation_base', [], T.cmp('<=', C(0), T.div(T.mul(C(0), d), W64))); o2.replay = None; o2.nontrivial = False
    ctx.discharge([o, o2])


def run(ctx):
    ctx.mir()
    keep_step = ('b_in_ceil', 'b_out_floor', 'b_out_floor_or_cap', 'f_no_wrap')
    tasks = [('O4', o4_task), ('O6', o6_task), ('O5sum', sum_task)]
    tasks += [(f"O3:step:{'in' if ei else 'out'}:{'a2b' if ab else 'b2a'}", c02.step_task(ei, ab, keep_step)) for ei in (True, False) for ab in (True, False)]
    tasks += [(f"O1O2:deltas:{'pino' if p else 'anchor'}:{'add' if s else 'remove'}", c08.deltas_task(p, s)) for p in (False, True) for s in (True, False)]
    tasks += [('O1O2:roundtrip', c08.roundtrip_task)]
    tasks += [t for t in c02.leaf_tasks() if t[0] in ('leaf:mul_shift_right', 'leaf:delta_a', 'leaf:delta_b')]
    # O7: the swap loop hands every step's amounts and fee split on unchanged (ghost accounting I5/P5, wiring W0-W5: fee split on the step's liquidity, crossing with the
    # growth updated so far) — Floyd verification of swap_manager::swap shared with C03
    from props import c03, hm, c06
    tasks += [c03.config_task(ei, ab, 'explicit', 0) for ei in (True, False) for ab in (True, False)]
    # O8: the payout handlers move exactly the owed amounts out of the pool's vaults and reset them (handler mode)
    tasks += [('O8:collect_fees', hm.collect_fees_task(False)), ('O8:collect_fees_v2', hm.collect_fees_task(True)),
              ('O8:collect_protocol_fees', c06.collect_protocol_fees_task(False)), ('O8:collect_protocol_fees_v2', c06.collect_protocol_fees_task(True))]
    ctx.parallel(tasks, max_procs=8)
    ctx.run_kani(['c01.rs'])
