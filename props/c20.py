"""C20 — SDK quotes equal what the program executes on the same state (Engine M on the MIR of a mirror build of rust-sdk/core)."""
import time, os, re, json, subprocess
from vlib import term as T, mirsmt as M, specs as SP
from vlib.term import C, TRUE, FALSE
from vlib.mirsmt import I, B, S, E, U256, Path, Panic, Opaque, P2

ID = 'C20'
LEVEL = 'translation_validation'
TECHNIQUE = ('symbolic execution of the rustc MIR of rust-sdk/core (mirror build: unmodified sources, ethnum replaced by an API shim whose operations are modelled as exact '
             '256-bit integer operations) into integer SMT (z3 5.1); each SDK function is compared with the closed-form specification that the PROGRAM function was proved '
             'equivalent to from its own MIR (C02/C08/C16 leaves): SDK Ok(v) <=> program Ok(v)')
FUNCTIONS = ['rust-sdk/core math::token::{try_get_amount_delta_a, try_get_amount_delta_b, try_get_next_sqrt_price_from_a, try_get_next_sqrt_price_from_b}',
             'rust-sdk/core math::tick::{tick_index_to_sqrt_price} vs program math::tick_math::sqrt_price_from_tick_index',
             'program math::token_math::{try_get_amount_delta_a, try_get_amount_delta_b, get_next_sqrt_price_from_a_round_up, get_next_sqrt_price_from_b_round_down} (through their proved specs)']
BOUNDS = ['loop-free leaf functions; all u128 prices / liquidity, all u64 amounts, both rounding flags', 'tick conversion: every tick in [-443636, 443636] (merged if-diamonds, 19 symbolic bits)']
ASSUMPTIONS = [
    'ethnum::U256 (not available offline) behaves like the documented std-style integer API: checked_mul = None on 256-bit overflow, checked_shl(n) = None iff n >= 256 '
    '(bits shifted out are lost), + - * wrap mod 2^256, / % are floor division and remainder, >> << by constants, TryInto fails iff the value does not fit',
    'program-side specifications are the ones proved equivalent to the program MIR in C02 (leaf obligations); K12 as stated there',
]
OUTSIDE = ['ethnum itself; the TypeScript / WASM packaging', 'the quote loops (swap_quote_by_input/output_token over tick arrays, adaptive fee manager of the SDK)',
           'sqrt_price_to_tick_index (14-step squaring loop)', 'legacy-sdk']
EXPLANATION = 'per SDK path: Ok(v) => the program spec is Valid with the same value; Err => the program spec is not Valid'

MINP, MAXP = SP.MINP, SP.MAXP
MIRROR = os.path.join(M.VERIF, 'sdk', 'mirror')


def sdk_dirs():
    """the mirror / replay crates point at /repo; for a self-test against a scratch copy (VERIF_REPO) they are copied with the paths rewritten"""
    if M.REPO == '/repo':
        return MIRROR, os.path.join(M.VERIF, 'sdk', 'replay')
    import hashlib, shutil
    dst = os.path.join(M.WORK, 'sdk_' + hashlib.sha1(M.REPO.encode()).hexdigest()[:8])
    if not os.path.isdir(dst):
        shutil.copytree(os.path.join(M.VERIF, 'sdk'), dst, ignore=shutil.ignore_patterns('target', 'Cargo.lock'))
        for sub in ('mirror', 'replay'):
            ct = os.path.join(dst, sub, 'Cargo.toml')
            txt = open(ct).read().replace('/repo/', M.REPO + '/')
            open(ct, 'w').write(txt)
    return os.path.join(dst, 'mirror'), os.path.join(dst, 'replay')


def sdk_mir(ctx):
    return ctx.mir('sdk', crate_dir=sdk_dirs()[0], features='', name='orca_whirlpools_core')


def install_ethnum(e):
    S_ = e.summaries
    W256 = P2(256)

    def u(v):
        v = e.deref(v)
        if isinstance(v, E) and not v.fields:       # associated constants of ethnum::U256
            return {'MAX': C((1 << 256) - 1), 'MIN': C(0), 'ZERO': C(0), 'ONE': C(1)}[v.var]
        return v.t

    def reg(rx):
        def d(f): S_.append((re.compile(rx), f)); return f
        return d

    @reg(r'<U256 as From<(u\d+|usize|bool)>>::from$|<(u\d+|usize) as Into<U256>>::into$')
    def _(e_, c, a, p): yield p, U256(u(a[0]))

    @reg(r'<u128 as Into<u128>>::into$|<u128 as From<u128>>::from$|<u64 as Into<u64>>::into$')
    def _(e_, c, a, p): yield p, a[0]

    @reg(r'U256::checked_mul$')
    def _(e_, c, a, p):
        pr = T.mul(u(a[0]), u(a[1]))
        p1 = e_.fork(p, T.cmp('<', pr, W256))
        if p1: yield p1, E('Some', [U256(pr)])
        p2 = e_.fork(p, T.cmp('>=', pr, W256))
        if p2: yield p2, E('None')

    @reg(r'U256::checked_shl$')
    def _(e_, c, a, p):
        n = u(a[1])
        assert T.is_c(n)
        if n[1] >= 256: yield p, E('None')
        else: yield p, E('Some', [U256(T.mod(T.mul(u(a[0]), P2(n[1])), W256))])

    @reg(r'<U256 as Div(<u128>)?>::div$|<U256 as Rem(<u128>)?>::rem$')
    def _(e_, c, a, p):
        n, d = u(a[0]), u(a[1])
        pz = e_.fork(p, T.cmp('=', d, C(0)))
        if pz: yield pz, Panic('attempt to divide by zero')
        pn = e_.fork(p, T.cmp('>', d, C(0)))
        if pn is None: return
        side = []
        q, r = e_.divrem(n, d, side)
        yield Path(pn.pc + side, pn.trace), U256(q if 'Div' in c else r)

    for op, fn in (('Add', T.add), ('Sub', T.sub), ('Mul', T.mul)):
        def mk(fn, op):
            def h(e_, c, a, p):
                raw = fn(u(a[0]), u(a[1]))
                w = T.mod(raw, W256)
                tr = p.trace
                if w is not raw and w != raw:
                    tr = tr + [('event', 'nowrap', f'ethnum {op}', T.and_(T.cmp('>=', raw, C(0)), T.cmp('<', raw, W256)))]
                yield Path(p.pc, tr), U256(w)
            return h
        S_.append((re.compile(r'<U256 as %s(<u128>)?>::%s$' % (op, op.lower())), mk(fn, op)))

    @reg(r'<U256 as Shr<\w+>>::shr$')
    def _(e_, c, a, p):
        n = u(a[1]); assert T.is_c(n)
        yield p, U256(T.div(u(a[0]), P2(n[1])))

    @reg(r'<U256 as Shl<\w+>>::shl$')
    def _(e_, c, a, p):
        n = u(a[1]); assert T.is_c(n)
        yield p, U256(T.mod(T.mul(u(a[0]), P2(n[1])), W256))

    @reg(r'<U256 as BitAnd>::bitand$')
    def _(e_, c, a, p):
        x, y = u(a[0]), u(a[1])
        for s, m in ((x, y), (y, x)):
            if T.is_c(m) and (m[1] & (m[1] + 1)) == 0:
                yield p, U256(T.mod(s, C(m[1] + 1))); return
        raise NotImplementedError('U256 bitand general')

    CMP = {'eq': '=', 'ne': 'distinct', 'lt': '<', 'le': '<=', 'gt': '>', 'ge': '>='}

    @reg(r'<U256 as Partial(Eq|Ord)(<u128>)?>::(eq|ne|lt|le|gt|ge)$|<u128 as Partial(Eq|Ord)<U256>>::(eq|ne|lt|le|gt|ge)$')
    def _(e_, c, a, p):
        op = c.split('::')[-1]
        yield p, B(T.cmp(CMP[op], u(a[0]), u(a[1])))

    @reg(r'<U256 as TryInto<(u64|u128)>>::try_into$|<(u64|u128) as TryFrom<U256>>::try_from$')
    def _(e_, c, a, p):
        ty = re.search(r'(u64|u128)', c).group(1); k = M.BITS[ty]
        x = u(a[0])
        p1 = e_.fork(p, T.cmp('<', x, P2(k)))
        if p1: yield p1, E('Ok', [I(x, ty)])
        p2 = e_.fork(p, T.cmp('>=', x, P2(k)))
        if p2: yield p2, E('Err', [E('TryFromIntError')])

    @reg(r'U256::as_u128$')
    def _(e_, c, a, p): yield p, I(T.mod(u(a[0]), P2(128)), 'u128')

    @reg(r'<Result<u64, &str> as PartialEq>::(eq|ne)$')
    def _(e_, c, a, p):
        x, y = e_.deref(a[0]), e_.deref(a[1])
        def promoted_err(v):
            # a promoted `&Err(CONST)` operand arrives as an opaque constant: read the constant's name from the promoted body in the dump
            if isinstance(v, E): return v
            name = v.data if isinstance(v, Opaque) else None
            m = re.search(r'const [\w:]*promoted\[\d+\]: &Result<u64, &str> = \{.*?_3 = const ([\w:]+);.*?Result::<u64, &str>::Err', e_.mir.txt, re.S)
            if not m: raise NotImplementedError('promoted Result constant')
            return E('Err', [Opaque('const', m.group(1))])
        x, y = promoted_err(x), promoted_err(y)
        def tagof(v):
            if v.var == 'Ok': return None
            er = v.fields[0]
            return er.data if isinstance(er, Opaque) else (er.var if isinstance(er, E) else str(er))
        if x.var != y.var: r = FALSE
        elif x.var == 'Ok': r = T.cmp('=', x.fields[0].t, y.fields[0].t)
        else: r = TRUE if str(tagof(x)).split('::')[-1] == str(tagof(y)).split('::')[-1] else FALSE
        yield p, B(r if c.endswith('::eq') else T.not_(r))

    @reg(r'Result::<.*>::map_err::<')
    def _(e_, c, a, p):
        r = a[0]
        if r.var == 'Ok': yield p, r; return
        cl = re.findall(r'\{closure@[^}]*\}', c)[-1]
        cands = [f for n, f in e_.mir.fns.items() if f.sig.startswith('_1: ' + cl)]
        for p2, rv in e_.run(cands[0], [Opaque('closure'), r.fields[0]], p):
            yield p2, E('Err', [rv])

    @reg(r'RangeInclusive::<u128>::contains::<')
    def _(e_, c, a, p):
        x = u(a[1])
        # the only promoted ranges in these functions are MIN_SQRT_PRICE..=MAX_SQRT_PRICE; read the bounds from the SDK constants
        lo, hi = e_.mir.const('MIN_SQRT_PRICE')[0], e_.mir.const('MAX_SQRT_PRICE')[0]
        yield p, B(T.and_(T.cmp('>=', x, C(lo)), T.cmp('<=', x, C(hi))))


def sdk_kind(r):
    if isinstance(r, Panic): return 'Panic', None
    if r.var == 'Ok':
        v = r.fields[0]
        return 'Ok', (v.t if isinstance(v, (I, U256)) else None)
    err = r.fields[0]
    name = err.data if isinstance(err, Opaque) and err.tag == 'const' else (err.var if isinstance(err, E) else str(err))
    return 'Err:' + str(name).split('::')[-1], None


OVERFLOW_KINDS = ('MultiplicationOverflow', 'MulDivOverflow', 'MultiplicationShiftRightOverflow', 'NumberDownCastError', 'TokenMaxExceeded')


def leaf_task(sdk_fn, spec, mkargs, valid_kind, native, in_bounds_only=False):
    """SDK function vs the program's proved spec, both flag values.
    per SDK Ok path:  (a) where the program accepts, the SDK's number is the program's number;
                      (b) for every way the program rejects *as overflowing*: the SDK must not return a number there;
    per SDK Err/panic path: (c) the program does not succeed there (for the price-stepping functions: does not succeed with an in-bounds price,
                      which is the only regime compute_swap uses them in)."""
    def task(ctx):
        T.reset()
        e = M.Engine(sdk_mir(ctx))
        install_ethnum(e)
        obls = []
        short = sdk_fn.split('::')[-1]
        for flag in (True, False):
            fb = TRUE if flag else FALSE
            args, sargs, names = mkargs(fb)
            outs = spec(e, *sargs)
            byk = {k: (c, v, sd) for k, c, v, sd in outs}
            cond_valid, v_spec, side = byk[valid_kind]
            accept = cond_valid
            if in_bounds_only:
                accept = T.and_(cond_valid, T.cmp('>=', v_spec, C(MINP)), T.cmp('<=', v_spec, C(MAXP)))
            n = 0
            for path, r in e.run(sdk_fn, args, Path()):
                kind, val = sdk_kind(r)
                sfx = f'flag={flag}:path{n}'; n += 1
                rp = dict(custom=diff_replay(native, names, flag))
                if kind == 'Ok':
                    o = M.Obligation(f'sdk:{short}:same_value_where_program_accepts:{sfx}', path.pc + list(side), T.implies(cond_valid, T.cmp('=', val, v_spec)),
                                     note='where the program accepts the input, the SDK returns the program\'s value')
                    o.replay = rp; obls.append(o)
                    for k2, (c2, _, sd2) in byk.items():
                        code = k2.split(':')[-1]
                        if code in OVERFLOW_KINDS:
                            o = M.Obligation(f'sdk:{short}:returns_number_where_program_rejects:{code}:{sfx}', path.pc + list(sd2), T.not_(c2),
                                             note=f'the SDK must report an error on every input the program rejects with {code}')
                            o.replay = rp; obls.append(o)
                else:
                    o = M.Obligation(f'sdk:{short}:fails_where_program_accepts:{kind}:{sfx}', path.pc + list(side), T.not_(accept),
                                     note='the SDK never fails where the program succeeds' + (' with an in-bounds price' if in_bounds_only else ''))
                    o.replay = rp; obls.append(o)
        ctx.functions.update(e.executed)
        ctx.discharge(obls)
    return task


# ------------------------------------------------------------------ native differential replay (program vs SDK mirror with the ethnum shim)
_sdk_exe = {}


def sdk_native(fn, args):
    if 'exe' not in _sdk_exe:
        d = sdk_dirs()[1]
        env = dict(os.environ); env['CARGO_NET_OFFLINE'] = 'true'; env.pop('RUSTUP_TOOLCHAIN', None)
        t = os.path.join(M.WORK, 'sdk_replay_t' if M.REPO == '/repo' else 'sdk_replay_t_scratch')
        p = subprocess.run(['cargo', 'build', '--offline', '--target-dir', t], cwd=d, env=env, capture_output=True, text=True)
        exe = os.path.join(t, 'debug', 'sdkreplay')
        _sdk_exe['exe'] = exe if p.returncode == 0 and os.path.exists(exe) else None
    if not _sdk_exe['exe']: return None
    return subprocess.run([_sdk_exe['exe'], fn] + [str(int(a)) for a in args], capture_output=True, text=True, timeout=60).stdout.strip()


def in_bounds_only_native(fn):
    return fn.startswith('get_next_sqrt_price')


def diff_replay(native, names, flag):
    prog_fn, sdk_fn = native
    def custom(env):
        from vlib import replay_m
        vals = [env.get(n) if env.get(n) is not None else 0 for n in names] + [1 if flag else 0]
        po = replay_m.native(prog_fn, vals)
        so = sdk_native(sdk_fn, vals)
        if po is None or so is None: return 'none', 'native drivers not built'
        p_ok = po.startswith('Ok:Valid') or (po.startswith('Ok ') )
        pv = int(po.split()[1]) if p_ok else None
        s_ok = so.startswith('Ok')
        sv = int(so.split()[1]) if s_ok else None
        info = f'program {prog_fn}({", ".join(map(str, vals))}) -> {po}; sdk {sdk_fn} -> {so}'
        overflow = any(k in po for k in OVERFLOW_KINDS)
        if s_ok and p_ok and pv != sv: return 'violates', info + ' : different values'
        if s_ok and overflow: return 'violates', info + ' : the SDK returns a number where the program rejects the input as overflowing'
        if not s_ok and p_ok and not (in_bounds_only_native(prog_fn) and not (MINP <= pv <= MAXP)):
            return 'violates', info + ' : the SDK fails where the program succeeds'
        return 'holds', info
    return custom


def tick_task(ctx):
    """tick_index_to_sqrt_price (SDK) == sqrt_price_from_tick_index (program) for every tick: both MIR bodies merged into one term over 19 symbolic bits"""
    from props import c09
    T.reset()
    obls = []
    es = M.Engine(sdk_mir(ctx)); es.merge = True; install_ethnum(es)
    ep = M.Engine(ctx.mir()); ep.merge = True; c09.install(ep)
    def ms96(e_, callee, args, path):
        a, b = e_.deref(args[0]).t, e_.deref(args[1]).t
        yield path, I(T.div(T.mul(a, b), C(1 << 96)), 'u128')
    es.summaries.insert(0, (re.compile(r'(^|::)mul_shift_96$'), ms96))
    for sign in (1, -1):
        syms = {k: T.bvar(f'b{"p" if sign > 0 else "n"}{k}') for k in range(c09.NBITS)}
        m = c09.bits_term({}, syms)
        tick = m if sign > 0 else T.sub(C(0), m)
        pre = [T.cmp('<=', m, C(c09.MAX_TICK))] + ([T.cmp('>=', m, C(1))] if sign < 0 else [])
        so = [(p, r) for p, r in es.run('tick_index_to_sqrt_price', [I(tick, 'i32')], Path(list(pre))) if not isinstance(r, Panic)]
        po = [(p, r) for p, r in ep.run('tick_math::sqrt_price_from_tick_index', [I(tick, 'i32')], Path(list(pre))) if not isinstance(r, Panic)]
        if len(so) != 1 or len(po) != 1:
            o = M.Obligation(f'sdk:tick_index_to_sqrt_price:{"pos" if sign > 0 else "neg"}:single_merged_path', [], FALSE, note=f'{len(so)}/{len(po)} paths'); o.replay = None
            obls.append(o); continue
        sv = so[0][1]; sv = sv.t if isinstance(sv, (I, U256)) else sv
        o = M.Obligation(f'sdk:tick_index_to_sqrt_price:{"pos" if sign > 0 else "neg"}:equals_program', so[0][0].pc + po[0][0].pc, T.cmp('=', sv, po[0][1].t),
                         note='same value on every tick of this sign (structural: both are the same chain of conditional floor-multiplications)')
        o.replay = None; o.abstract_div = True
        obls.append(o)
    ctx.functions.update(es.executed); ctx.functions.update(ep.executed)
    ctx.discharge(obls, cap=ctx.cap(120, 600))


def fees_task(ctx):
    """SDK swap-fee helpers vs the program's per-step formulas (compute_swap): net-of-fee budget = floor(a*(1e6-f)/1e6); fee on a curve input = ceil(a*f/(1e6-f))"""
    T.reset()
    e = M.Engine(sdk_mir(ctx))
    install_ethnum(e)
    obls = []
    a = T.var('amount', 0, 2**64 - 1); f = T.var('fee_rate', 0, 100000)
    MIL = C(1000000)
    for path, r in e.run('math::token::try_apply_swap_fee', [I(a, 'u64'), I(f, 'u32')], Path()):
        kind, val = sdk_kind(r)
        if kind == 'Ok':
            o = M.Obligation(f'sdk:try_apply_swap_fee:equals_program_budget:{len(obls)}', path.pc, T.cmp('=', val, T.div(T.mul(a, T.sub(MIL, f)), MIL)))
        else:
            o = M.Obligation(f'sdk:try_apply_swap_fee:never_fails:{kind}:{len(obls)}', path.pc, FALSE, note='the program computes this budget without error for every u64 amount and fee rate <= 100000')
        o.replay = None; obls.append(o)
    for path, r in e.run('math::token::try_reverse_apply_swap_fee', [I(a, 'u64'), I(f, 'u32')], Path()):
        kind, val = sdk_kind(r)
        N, D = T.mul(a, f), T.sub(MIL, f)
        # program fee = ceil(a*f/(1e6-f)) : x*D >= N and (x-1)*D < N
        if kind == 'Ok':
            x = T.sub(val, a)
            goal = T.and_(T.cmp('>=', T.mul(x, D), N), T.or_(T.cmp('=', x, C(0)), T.cmp('<', T.mul(T.sub(x, C(1)), D), N)))
            o = M.Obligation(f'sdk:try_reverse_apply_swap_fee:minus_amount_equals_program_fee:{len(obls)}', path.pc, goal,
                             note='pre_fee_amount - amount_in is the program\'s fee ceil(amount_in*rate/(1e6-rate))')
        else:
            # the SDK may only fail when amount_in + program fee does not fit u64 (the program's swap loop then fails with AmountCalcOverflow)
            q = T.div(T.add(N, T.sub(D, C(1))), D)
            o = M.Obligation(f'sdk:try_reverse_apply_swap_fee:fails_only_when_input_plus_fee_exceeds_u64:{kind}:{len(obls)}', path.pc, T.cmp('>', T.add(a, q), C(2**64 - 1)))
        o.replay = None; obls.append(o)
    ctx.functions.update(e.executed)
    ctx.discharge(obls)


# =============================================================================== adaptive-fee manager: SDK port vs program (structural differential)
CONST_FIELDS = ['filter_period', 'decay_period', 'reduction_factor', 'adaptive_fee_control_factor', 'max_volatility_accumulator', 'tick_group_size', 'major_swap_threshold_ticks']
VAR_FIELDS = ['last_reference_update_timestamp', 'last_major_swap_timestamp', 'volatility_reference', 'tick_group_index_reference', 'volatility_accumulator']
FIELD_TY = dict(filter_period='u16', decay_period='u16', reduction_factor='u16', adaptive_fee_control_factor='u32', max_volatility_accumulator='u32', tick_group_size='u16',
                major_swap_threshold_ticks='u16', last_reference_update_timestamp='u64', last_major_swap_timestamp='u64', volatility_reference='u32',
                tick_group_index_reference='i32', volatility_accumulator='u32')


class FeeWorld:
    """one engine over the merged MIR of program and SDK mirror; both tick->price functions are the same uninterpreted monotone function
    (their equality on every tick is obligation sdk:tick_index_to_sqrt_price:*:equals_program), the inverse is a memoised uninterpreted function with contract T2"""
    def __init__(self, ctx):
        from props.c08 import PriceFn
        T.reset()
        # two engines (program MIR / SDK mirror MIR) over the same term universe: shared price function, shared division memo
        self.e = M.Engine(ctx.mir(), prune_ms=3000)          # program
        self.es = M.Engine(sdk_mir(ctx), prune_ms=3000)      # SDK
        self.es.divmemo = self.e.divmemo
        install_ethnum(self.es); install_ethnum(self.e)
        self.pf = PriceFn()
        self.inv_memo = {}
        def tick_of(e_, callee, args, path):
            p = e_.deref(args[0]).t
            key = T.smt(p)
            if key not in self.inv_memo:
                t = T.fresh('tick_of', -443636, 443636)
                lo = self.pf.price(t); hi = self.pf.price(T.add(t, C(1)))
                self.pf.side += [T.cmp('<=', lo, p), T.or_(T.cmp('<', p, hi), T.cmp('>=', t, C(443636)))]
                self.inv_memo[key] = t
            yield path, I(self.inv_memo[key], 'i32')
        for en in (self.e, self.es):
            en.axioms = self.pf.side
            en.summaries.insert(0, (re.compile(r'sqrt_price_from_tick_index$|tick_index_to_sqrt_price$'), self.pf.summary()))
            en.summaries.insert(0, (re.compile(r'tick_index_from_sqrt_price$|sqrt_price_to_tick_index$'), tick_of))
        # shared symbolic state
        self.c = {f: T.var('c_' + f, 0, (1 << M.BITS[FIELD_TY[f]]) - 1) for f in CONST_FIELDS}
        self.v = {}
        for f in VAR_FIELDS:
            ty = FIELD_TY[f]
            lo, hi = (-(1 << 31), (1 << 31) - 1) if ty == 'i32' else (0, (1 << M.BITS[ty]) - 1)
            self.v[f] = T.var('v_' + f, lo, hi)
        # documented validity of stored constants / variables (validate_constants, accumulator invariant): only what the functions rely on not to panic
        self.pre = [T.cmp('>=', self.c['tick_group_size'], C(1)), T.cmp('<=', self.v['volatility_reference'], self.c['max_volatility_accumulator']),
                    T.cmp('>=', self.v['tick_group_index_reference'], C(-443636)), T.cmp('<=', self.v['tick_group_index_reference'], C(443636))]

    def consts(self, sdk):
        d = {f: I(self.c[f], FIELD_TY[f]) for f in CONST_FIELDS}
        if not sdk: d['reserved'] = Opaque('reserved')
        return S(d)

    def vars(self, sdk):
        d = {f: I(self.v[f], FIELD_TY[f]) for f in VAR_FIELDS}
        if not sdk: d['reserved'] = Opaque('reserved')
        return S(d)

    def info(self, sdk):
        return S({'constants': self.consts(sdk), 'variables': self.vars(sdk)})


def same_value(a, b):
    """conjunction of term equalities between two result values of the same shape (fields compared by name where both sides name them); None if shapes differ"""
    if isinstance(a, Opaque) or isinstance(b, Opaque): return TRUE
    if isinstance(a, M.Unit) and isinstance(b, M.Unit): return TRUE
    if isinstance(a, (I, U256)) and isinstance(b, (I, U256)): return T.cmp('=', a.t, b.t)
    if isinstance(a, B) and isinstance(b, B): return T.beq(a.t, b.t)
    if isinstance(a, M.Boxed): a = a.val
    if isinstance(b, M.Boxed): b = b.val
    if isinstance(a, E) and isinstance(b, E):
        if a.var != b.var or len(a.fields) != len(b.fields): return None
        parts = [same_value(x, y) for x, y in zip(a.fields, b.fields)]
    elif isinstance(a, S) and isinstance(b, S):
        if isinstance(a.fields, dict) and isinstance(b.fields, dict):
            keys = [k for k in a.fields if k in b.fields]
            parts = [same_value(a.fields[k], b.fields[k]) for k in keys]
        else:
            la = list(a.fields.values()) if isinstance(a.fields, dict) else a.fields
            lb = list(b.fields.values()) if isinstance(b.fields, dict) else b.fields
            if len(la) != len(lb): return None
            parts = [same_value(x, y) for x, y in zip(la, lb)]
    elif isinstance(a, M.Arr) and isinstance(b, M.Arr) and len(a.items) == len(b.items):
        parts = [same_value(x, y) for x, y in zip(a.items, b.items)]
    else:
        return None
    if any(x is None for x in parts): return None
    return T.and_(*parts)


def outcome(r):
    if isinstance(r, Panic): return 'panic'
    if isinstance(r, E) and r.var == 'Err': return 'Err'
    return 'Ok'        # Ok(v) and a plain value v are the same outcome (the SDK port drops some Result wrappers)


def differential(w, name, prog_fn, sdk_fn, mk_args, post=None, pre=()):
    """run the program function, then the SDK function under each program path's condition (so only jointly feasible pairs are explored), and require the same
    outcome kind and the same value; `mk_args(sdk)` builds the argument list for either side, `post` = position of a `&mut` argument whose final value on each path is compared as well"""
    obls = []
    n = 0
    for pp, pr in w.e.run(prog_fn, mk_args(False), Path(list(w.pre) + list(pre))):
        pstate = w.e.last_ext.get(post) if post is not None else None       # final value of the `&mut` argument on THIS path
        for sp, sr in w.es.run(sdk_fn, mk_args(True), pp):
            sstate = w.es.last_ext.get(post) if post is not None else None
            key = f'sdk:{name}:pair{n}'; n += 1
            ko, so = outcome(pr), outcome(sr)
            if ko != so and not (ko == 'panic' and so == 'Err') and not (ko == 'Err' and so == 'panic'):
                o = M.Obligation(key + f':same_outcome_kind:{ko}_vs_{so}', sp.pc, FALSE, note='program and SDK port take different outcomes on a jointly feasible input'); o.replay = None
                obls.append(o); continue
            if ko in ('Err', 'panic'): continue
            pv = pr.fields[0] if isinstance(pr, E) and pr.var == 'Ok' else pr
            sv = sr.fields[0] if isinstance(sr, E) and sr.var == 'Ok' else sr
            g = same_value(pv, sv)
            if g is None:
                o = M.Obligation(key + ':same_shape', sp.pc, FALSE, note=f'{pv!r:.200} vs {sv!r:.200}'); o.replay = None; obls.append(o); continue
            if pstate is not None:
                g2 = same_value(pstate, sstate)
                g = T.and_(g, g2) if g2 is not None else FALSE
            o = M.Obligation(key + ':same_result', sp.pc, g, hints=w.pf.side, note='SDK port returns the value (and leaves the state) the program computes'); o.replay = None
            obls.append(o)
    return obls, n


def install_leaf_summaries(w):
    """inside FeeRateManager::new both sides call floor_division / ceil_division_u32 / update_reference: replace them, on BOTH sides, by the same function of
    the same arguments (the leaves are compared separately below) — keeps the comparison of `new` to its own branches"""
    memo = {}
    def floor_div(e_, c, a, p):
        x, y = e_.deref(a[0]).t, e_.deref(a[1]).t
        pz = e_.fork(p, T.cmp('<=', y, C(0)))
        if pz: yield pz, Panic('Divisor must be positive.')
        pn = e_.fork(p, T.cmp('>', y, C(0)))
        if pn:
            side = []
            q, r = e_.divrem(T.add(x, C(1 << 31)), y, side)       # floor((x + 2^31)/y) with a non-negative dividend, then shift back: floor(x/y) = q - ceil... use direct definition instead
            key = ('fd', T.smt(x), T.smt(y))
            if key not in memo:
                fq = T.fresh('floor_q', -(1 << 31), (1 << 31) - 1)
                memo[key] = (fq, T.and_(T.cmp('<=', T.mul(fq, y), x), T.cmp('<', x, T.mul(T.add(fq, C(1)), y))))
            fq, lem = memo[key]
            yield Path(pn.pc + [lem], pn.trace), I(fq, 'i32')
    def ceil_div(e_, c, a, p):
        x, y = e_.deref(a[0]).t, e_.deref(a[1]).t
        ty = a[0].ty if isinstance(a[0], I) else 'u32'
        pz = e_.fork(p, T.cmp('=', y, C(0)))
        if pz: yield pz, Panic('Divisor must be positive.')
        pn = e_.fork(p, T.cmp('>', y, C(0)))
        if pn:
            key = ('cd', T.smt(x), T.smt(y))
            if key not in memo:
                cq = T.fresh('ceil_q', 0, (1 << M.BITS[ty]) - 1)
                memo[key] = (cq, T.and_(T.cmp('>=', T.mul(cq, y), x), T.or_(T.cmp('=', cq, C(0)), T.cmp('<', T.mul(T.sub(cq, C(1)), y), x))))
            cq, lem = memo[key]
            yield Path(pn.pc + [lem], pn.trace), I(cq, ty)
    def upd_ref(e_, c, a, p):
        vars_ref = a[0]
        v = e_.deref(vars_ref); tgi = e_.deref(a[1]).t; ts = e_.deref(a[2]).t; cs = e_.deref(a[3])
        key = ('ur',) + tuple(T.smt(v.get(f).t) for f in VAR_FIELDS) + (T.smt(tgi), T.smt(ts)) + tuple(T.smt(cs.get(f).t) for f in CONST_FIELDS)
        if key not in memo:
            memo[key] = dict(ok=T.bvar('ur_ok'), vol=T.fresh('ur_vol_ref', 0, 2**32 - 1), tgi=T.fresh('ur_tgi_ref', -(1 << 31), (1 << 31) - 1), ts=T.fresh('ur_ts', 0, 2**64 - 1),
                             inv=None)
        m = memo[key]
        if m['inv'] is None:
            # what `new` relies on afterwards (C14 invariant, proved for the program by Kani): the new volatility reference does not exceed the configured maximum
            m['inv'] = T.cmp('<=', m['vol'], cs.get('max_volatility_accumulator').t)
        pe = e_.fork(p, T.not_(m['ok']))
        if pe: yield pe, E('Err', [E('InvalidTimestamp')])
        po = e_.fork(p, m['ok'])
        if po:
            nv = v
            for f, t in (('volatility_reference', m['vol']), ('tick_group_index_reference', m['tgi']), ('last_reference_update_timestamp', m['ts'])):
                nv = nv.set(f, I(t, FIELD_TY[f]))
            e_.write_place(vars_ref.frame, vars_ref.place, nv)
            yield Path(po.pc + [m['inv']], po.trace), E('Ok', [M.Unit()])
    for en in (w.e, w.es):
        en.summaries.insert(0, (re.compile(r'(^|::)floor_division$'), floor_div))
        en.summaries.insert(0, (re.compile(r'(^|::)ceil_division_u32$'), ceil_div))
        en.summaries.insert(0, (re.compile(r'::update_reference$'), upd_ref))


def manager_task(ctx):
    obls = []
    stats = {}
    # ---- leaves: floor_division, ceil_division_u32, ceil_division_u128 (SDK copies vs program)
    for leaf, tys in (('floor_division', ('i32', 'i32')), ('ceil_division_u32', ('u32', 'u32')), ('ceil_division_u128', ('u128', 'u128'))):
        w = FeeWorld(ctx)
        def rng_(ty):
            return (-(1 << 31), (1 << 31) - 1) if ty == 'i32' else (0, (1 << M.BITS[ty]) - 1)
        x = T.var('x', *rng_(tys[0])); y = T.var('y', *rng_(tys[1]))
        o, n = differential(w, leaf, 'int_division_math::' + leaf, leaf, lambda sdk: [I(x, tys[0]), I(y, tys[1])])
        ctx.discharge(o); stats[leaf] = n        # discharge before the next world resets the term universe
    # ---- AdaptiveFeeVariables::update_reference / update_volatility_accumulator (called on &mut self)
    for meth, extra in (('update_reference', lambda: [I(T.var('tgi', -443636, 443636), 'i32'), I(T.var('now', 0, 2**64 - 1), 'u64')]),
                        ('update_volatility_accumulator', lambda: [I(T.var('tgi2', -443636, 443636), 'i32')])):
        w = FeeWorld(ctx)
        xs = extra()
        frames = {}
        def mk(sdk, xs=xs, w=w, frames=frames):
            fr = M.Frame(None); fr.loc = {'_900': w.vars(sdk), '_901': w.consts(sdk)}
            frames[sdk] = fr
            return [M.Ref(fr, '_900')] + xs + [M.Ref(fr, '_901')]
        o, n = differential(w, f'AdaptiveFeeVariables::{meth}', f'oracle::AdaptiveFeeVariables::{meth}', f'math::adaptive_fee::AdaptiveFeeVariablesFacade::{meth}', mk, 0)
        ctx.discharge(o); stats[meth] = n
    # ---- FeeRateManager::new (adaptive), leaves summarised identically on both sides
    w = FeeWorld(ctx)
    install_leaf_summaries(w)
    a2b = T.bvar('a_to_b'); tick = T.var('current_tick_index', -443636, 443636); ts = T.var('timestamp', 0, 2**64 - 1); sfr = T.var('static_fee_rate', 0, 65535)
    def args_new(sdk):
        return [B(a2b), I(tick, 'i32'), I(ts, 'u64'), I(sfr, 'u16'), E('Some', [w.info(sdk)])]
    o, n = differential(w, 'FeeRateManager::new', 'fee_rate_manager::FeeRateManager::new', 'math::adaptive_fee::FeeRateManager::new', args_new)
    obls += o; stats['new'] = n
    ctx.extra['manager_pairs'] = stats
    ctx.functions.update(x for x in w.e.executed); ctx.functions.update('sdk ' + x for x in w.es.executed)
    ctx.discharge(obls)


def step_task(exact_in, a_to_b):
    """SDK compute_swap_step vs program compute_swap on the same step inputs: same amounts, next price and fee wherever the program succeeds; SDK fails only where the
    program fails (or where input + fee exceeds u64, which the program's loop rejects). Program leaves run against their proved specs, SDK leaves from their own MIR."""
    def task(ctx):
        from props import c02
        w = FeeWorld(ctx)
        c02.install_summaries(w.e)
        w.e.prune_ms, w.es.prune_ms = 800, 400      # pruning is only an optimisation: an unpruned infeasible path yields vacuous (still discharged) pair obligations
        rem = T.var('rem', 0, 2**64 - 1); fee = T.var('fee', 0, 100000); L = T.var('L', 0, 2**128 - 1)
        cur = T.var('cur', MINP, MAXP); tgt = T.var('tgt', MINP, MAXP)
        pre = [T.cmp('<=', tgt, cur) if a_to_b else T.cmp('>=', tgt, cur)]
        fi, fa = (TRUE if exact_in else FALSE), (TRUE if a_to_b else FALSE)
        def mk(sdk):
            if sdk: return [I(rem, 'u64'), I(fee, 'u32'), I(L, 'u128'), I(cur, 'u128'), I(tgt, 'u128'), B(fa), B(fi)]
            return [I(rem, 'u64'), I(fee, 'u32'), I(L, 'u128'), I(cur, 'u128'), I(tgt, 'u128'), B(fi), B(fa)]
        tag = f"step:{'in' if exact_in else 'out'}:{'a2b' if a_to_b else 'b2a'}"
        obls = []
        w.pre = []
        # both sides are explored once on their own; every (program Ok path, SDK path) pair then becomes one obligation
        # pc_program & pc_sdk => same step (infeasible pairs are discharged by their contradictory path conditions), all discharged in parallel
        P = [(pp, pr) for pp, pr in w.e.run('swap_math::compute_swap', mk(False), Path(pre)) if not isinstance(pr, Panic) and not (isinstance(pr, E) and pr.var == 'Err')]
        S_ = list(w.es.run('compute_swap_step', mk(True), Path(pre)))
        n = 0
        for i, (pp, pr) in enumerate(P):
            pv = pr.fields[0]
            pvals = [pv.get(k).t for k in ('amount_in', 'amount_out', 'next_price', 'fee_amount')]
            for j, (sp, sr) in enumerate(S_):
                key = f'sdk:{tag}:prog{i}:sdk{j}'; n += 1
                pc = pp.pc + sp.pc
                if isinstance(sr, Panic) or (isinstance(sr, E) and sr.var == 'Err'):
                    o = M.Obligation(key + ':sdk_fails_only_on_u64_overflow_of_input_plus_fee', pc, T.cmp('>', T.add(pvals[0], pvals[3]), C(2**64 - 1)),
                                     hints=w.pf.side, note=f'SDK outcome {sdk_kind(sr)[0]}'); o.replay = None; obls.append(o); continue
                sv = sr.fields[0]
                svals = [x.t for x in (list(sv.fields.values()) if isinstance(sv.fields, dict) else sv.fields)]
                if len(svals) != 4:
                    o = M.Obligation(key + ':same_shape', pc, FALSE); o.replay = None; obls.append(o); continue
                g = T.and_(*[T.cmp('=', a, b_) for a, b_ in zip(pvals, svals)])
                o = M.Obligation(key + ':same_step', pc, g, hints=w.pf.side, note='amount_in, amount_out, next price, fee equal'); o.replay = None; obls.append(o)
        ctx.extra[tag + ':paths'] = {'program_ok': len(P), 'sdk': len(S_)}
        ctx.extra[tag] = {'pairs': n}
        ctx.functions.update(w.e.executed); ctx.functions.update('sdk ' + x for x in w.es.executed)
        ctx.discharge(obls, cap=ctx.cap(60, 300))
    return task


def tasks():
    def delta_args(fb):
        p0 = T.var('p0', MINP, MAXP); p1 = T.var('p1', MINP, MAXP); L = T.var('L', 0, 2**128 - 1)
        return [I(p0, 'u128'), I(p1, 'u128'), I(L, 'u128'), B(fb)], [p0, p1, L, fb], [p0[1], p1[1], L[1]]
    def price_args(fb):
        p = T.var('p', MINP, MAXP); L = T.var('L', 0, 2**128 - 1); a = T.var('amt', 0, 2**64 - 1)
        return [I(p, 'u128'), I(L, 'u128'), I(a, 'u64'), B(fb)], [p, L, a, fb], [p[1], L[1], a[1]]
    return [
        ('sdk:delta_a', leaf_task('math::token::try_get_amount_delta_a', SP.spec_try_delta_a, delta_args, 'Ok:Valid', ('try_get_amount_delta_a', 'try_get_amount_delta_a'))),
        ('sdk:delta_b', leaf_task('math::token::try_get_amount_delta_b', SP.spec_try_delta_b, delta_args, 'Ok:Valid', ('try_get_amount_delta_b', 'try_get_amount_delta_b'))),
        ('sdk:next_a', leaf_task('math::token::try_get_next_sqrt_price_from_a', SP.spec_next_price_from_a, price_args, 'Ok', ('get_next_sqrt_price_from_a_round_up', 'try_get_next_sqrt_price_from_a'), True)),
        ('sdk:next_b', leaf_task('math::token::try_get_next_sqrt_price_from_b', SP.spec_next_price_from_b, price_args, 'Ok', ('get_next_sqrt_price_from_b_round_down', 'try_get_next_sqrt_price_from_b'), True)),
        ('sdk:tick', tick_task),
        ('sdk:fees', fees_task),
        ('sdk:fee_manager', manager_task),
    ]


def thorough_tasks():
    return [(f"sdk:step:{'in' if ei else 'out'}:{'a2b' if ab else 'b2a'}", step_task(ei, ab)) for ei in (True, False) for ab in (True, False)]


def run(ctx):
    ctx.mir(); sdk_mir(ctx)
    ts = tasks() + (thorough_tasks() if ctx.tier == 'thorough' else [])
    ctx.parallel(ts, max_procs=6)
