"""C20 — SDK quotes equal what the program executes on the same state (Engine M on the MIR of a mirror build of rust-sdk/core)."""
import time, os, re, json, subprocess
from vlib import term as T, mirsmt as M, specs as SP
from vlib.term import C, TRUE, FALSE
from vlib.mirsmt import I, B, S, E, U256, Path, Panic, Opaque, P2

ID = 'C20'
LEVEL = 'translation_validation'
TECHNIQUE = ('symbolic execution of the rustc MIR of rust-sdk/core (mirror build: unmodified sources, ethnum replaced by an API shim whose operations are modelled as exact '
             '256-bit integer operations) into integer SMT (z3 5.1); each SDK function is compared with the closed-form specification that the PROGRAM function was proved '
             'equivalent to from its own MIR (C02/C08/C16 leaves): SDK Ok(v) <=> program Ok(v)')
FUNCTIONS = ['rust-sdk/core math::token::{try_get_amount_delta_a, try_get_amount_delta_b, try_get_next_sqrt_price_from_a, try_get_next_sqrt_price_from_b}',
             'rust-sdk/core math::tick::{tick_index_to_sqrt_price} vs program math::tick_math::sqrt_price_from_tick_index',
             'program math::token_math::{try_get_amount_delta_a, try_get_amount_delta_b, get_next_sqrt_price_from_a_round_up, get_next_sqrt_price_from_b_round_down} (through their proved specs)']
BOUNDS = ['loop-free leaf functions; all u128 prices / liquidity, all u64 amounts, both rounding flags', 'tick conversion: every tick in [-443636, 443636] (merged if-diamonds, 19 symbolic bits)']
ASSUMPTIONS = [
    'ethnum::U256 (not available offline) behaves like the documented std-style integer API: checked_mul = None on 256-bit overflow, checked_shl(n) = None iff n >= 256 '
    '(bits shifted out are lost), + - * wrap mod 2^256, / % are floor division and remainder, >> << by constants, TryInto fails iff the value does not fit',
    'program-side specifications are the ones proved equivalent to the program MIR in C02 (leaf obligations); K12 as stated there',
]
OUTSIDE = ['ethnum itself; the TypeScript / WASM packaging', 'the quote loops (swap_quote_by_input/output_token over tick arrays, adaptive fee manager of the SDK)',
           'sqrt_price_to_tick_index (14-step squaring loop)', 'legacy-sdk']
EXPLANATION = 'per SDK path: Ok(v) => the program spec is Valid with the same value; Err => the program spec is not Valid'

MINP, MAXP = SP.MINP, SP.MAXP
MIRROR = os.path.join(M.VERIF, 'sdk', 'mirror')


def sdk_mir(ctx):
    return ctx.mir('sdk', crate_dir=MIRROR, features='', name='orca_whirlpools_core')


def install_ethnum(e):
    S_ = e.summaries
    W256 = P2(256)

    def u(v):
        v = e.deref(v)
        if isinstance(v, E) and not v.fields:       # associated constants of ethnum::U256
            return {'MAX': C((1 << 256) - 1), 'MIN': C(0), 'ZERO': C(0), 'ONE': C(1)}[v.var]
        return v.t

    def reg(rx):
        def d(f): S_.append((re.compile(rx), f)); return f
        return d

    @reg(r'<U256 as From<(u\d+|usize|bool)>>::from$|<(u\d+|usize) as Into<U256>>::into$')
    def _(e_, c, a, p): yield p, U256(u(a[0]))

    @reg(r'<u128 as Into<u128>>::into$|<u128 as From<u128>>::from$|<u64 as Into<u64>>::into$')
    def _(e_, c, a, p): yield p, a[0]

    @reg(r'U256::checked_mul$')
    def _(e_, c, a, p):
        pr = T.mul(u(a[0]), u(a[1]))
        p1 = e_.fork(p, T.cmp('<', pr, W256))
        if p1: yield p1, E('Some', [U256(pr)])
        p2 = e_.fork(p, T.cmp('>=', pr, W256))
        if p2: yield p2, E('None')

    @reg(r'U256::checked_shl$')
    def _(e_, c, a, p):
        n = u(a[1])
        assert T.is_c(n)
        if n[1] >= 256: yield p, E('None')
        else: yield p, E('Some', [U256(T.mod(T.mul(u(a[0]), P2(n[1])), W256))])

    @reg(r'<U256 as Div(<u128>)?>::div$|<U256 as Rem(<u128>)?>::rem$')
    def _(e_, c, a, p):
        n, d = u(a[0]), u(a[1])
        pz = e_.fork(p, T.cmp('=', d, C(0)))
        if pz: yield pz, Panic('attempt to divide by zero')
        pn = e_.fork(p, T.cmp('>', d, C(0)))
        if pn is None: return
        side = []
        q, r = e_.divrem(n, d, side)
        yield Path(pn.pc + side, pn.trace), U256(q if 'Div' in c else r)

    for op, fn in (('Add', T.add), ('Sub', T.sub), ('Mul', T.mul)):
        def mk(fn, op):
            def h(e_, c, a, p):
                raw = fn(u(a[0]), u(a[1]))
                w = T.mod(raw, W256)
                tr = p.trace
                if w is not raw and w != raw:
                    tr = tr + [('event', 'nowrap', f'ethnum {op}', T.and_(T.cmp('>=', raw, C(0)), T.cmp('<', raw, W256)))]
                yield Path(p.pc, tr), U256(w)
            return h
        S_.append((re.compile(r'<U256 as %s(<u128>)?>::%s$' % (op, op.lower())), mk(fn, op)))

    @reg(r'<U256 as Shr<\w+>>::shr$')
    def _(e_, c, a, p):
        n = u(a[1]); assert T.is_c(n)
        yield p, U256(T.div(u(a[0]), P2(n[1])))

    @reg(r'<U256 as Shl<\w+>>::shl$')
    def _(e_, c, a, p):
        n = u(a[1]); assert T.is_c(n)
        yield p, U256(T.mod(T.mul(u(a[0]), P2(n[1])), W256))

    @reg(r'<U256 as BitAnd>::bitand$')
    def _(e_, c, a, p):
        x, y = u(a[0]), u(a[1])
        for s, m in ((x, y), (y, x)):
            if T.is_c(m) and (m[1] & (m[1] + 1)) == 0:
                yield p, U256(T.mod(s, C(m[1] + 1))); return
        raise NotImplementedError('U256 bitand general')

    CMP = {'eq': '=', 'ne': 'distinct', 'lt': '<', 'le': '<=', 'gt': '>', 'ge': '>='}

    @reg(r'<U256 as Partial(Eq|Ord)(<u128>)?>::(eq|ne|lt|le|gt|ge)$|<u128 as Partial(Eq|Ord)<U256>>::(eq|ne|lt|le|gt|ge)$')
    def _(e_, c, a, p):
        op = c.split('::')[-1]
        yield p, B(T.cmp(CMP[op], u(a[0]), u(a[1])))

    @reg(r'<U256 as TryInto<(u64|u128)>>::try_into$|<(u64|u128) as TryFrom<U256>>::try_from$')
    def _(e_, c, a, p):
        ty = re.search(r'(u64|u128)', c).group(1); k = M.BITS[ty]
        x = u(a[0])
        p1 = e_.fork(p, T.cmp('<', x, P2(k)))
        if p1: yield p1, E('Ok', [I(x, ty)])
        p2 = e_.fork(p, T.cmp('>=', x, P2(k)))
        if p2: yield p2, E('Err', [E('TryFromIntError')])

    @reg(r'U256::as_u128$')
    def _(e_, c, a, p): yield p, I(T.mod(u(a[0]), P2(128)), 'u128')

    @reg(r'Result::<.*>::map_err::<')
    def _(e_, c, a, p):
        r = a[0]
        if r.var == 'Ok': yield p, r; return
        cl = re.findall(r'\{closure@[^}]*\}', c)[-1]
        cands = [f for n, f in e_.mir.fns.items() if f.sig.startswith('_1: ' + cl)]
        for p2, rv in e_.run(cands[0], [Opaque('closure'), r.fields[0]], p):
            yield p2, E('Err', [rv])

    @reg(r'RangeInclusive::<u128>::contains::<')
    def _(e_, c, a, p):
        x = u(a[1])
        # the only promoted ranges in these functions are MIN_SQRT_PRICE..=MAX_SQRT_PRICE; read the bounds from the SDK constants
        lo, hi = e_.mir.const('MIN_SQRT_PRICE')[0], e_.mir.const('MAX_SQRT_PRICE')[0]
        yield p, B(T.and_(T.cmp('>=', x, C(lo)), T.cmp('<=', x, C(hi))))


def sdk_kind(r):
    if isinstance(r, Panic): return 'Panic', None
    if r.var == 'Ok':
        v = r.fields[0]
        return 'Ok', (v.t if isinstance(v, (I, U256)) else None)
    err = r.fields[0]
    name = err.data if isinstance(err, Opaque) and err.tag == 'const' else (err.var if isinstance(err, E) else str(err))
    return 'Err:' + str(name).split('::')[-1], None


OVERFLOW_KINDS = ('MultiplicationOverflow', 'MulDivOverflow', 'MultiplicationShiftRightOverflow', 'NumberDownCastError', 'TokenMaxExceeded')


def leaf_task(sdk_fn, spec, mkargs, valid_kind, native, in_bounds_only=False):
    """SDK function vs the program's proved spec, both flag values.
    per SDK Ok path:  (a) where the program accepts, the SDK's number is the program's number;
                      (b) for every way the program rejects *as overflowing*: the SDK must not return a number there;
    per SDK Err/panic path: (c) the program does not succeed there (for the price-stepping functions: does not succeed with an in-bounds price,
                      which is the only regime compute_swap uses them in)."""
    def task(ctx):
        T.reset()
        e = M.Engine(sdk_mir(ctx))
        install_ethnum(e)
        obls = []
        short = sdk_fn.split('::')[-1]
        for flag in (True, False):
            fb = TRUE if flag else FALSE
            args, sargs, names = mkargs(fb)
            outs = spec(e, *sargs)
            byk = {k: (c, v, sd) for k, c, v, sd in outs}
            cond_valid, v_spec, side = byk[valid_kind]
            accept = cond_valid
            if in_bounds_only:
                accept = T.and_(cond_valid, T.cmp('>=', v_spec, C(MINP)), T.cmp('<=', v_spec, C(MAXP)))
            n = 0
            for path, r in e.run(sdk_fn, args, Path()):
                kind, val = sdk_kind(r)
                sfx = f'flag={flag}:path{n}'; n += 1
                rp = dict(custom=diff_replay(native, names, flag))
                if kind == 'Ok':
                    o = M.Obligation(f'sdk:{short}:same_value_where_program_accepts:{sfx}', path.pc + list(side), T.implies(cond_valid, T.cmp('=', val, v_spec)),
                                     note='where the program accepts the input, the SDK returns the program\'s value')
                    o.replay = rp; obls.append(o)
                    for k2, (c2, _, sd2) in byk.items():
                        code = k2.split(':')[-1]
                        if code in OVERFLOW_KINDS:
                            o = M.Obligation(f'sdk:{short}:returns_number_where_program_rejects:{code}:{sfx}', path.pc + list(sd2), T.not_(c2),
                                             note=f'the SDK must report an error on every input the program rejects with {code}')
                            o.replay = rp; obls.append(o)
                else:
                    o = M.Obligation(f'sdk:{short}:fails_where_program_accepts:{kind}:{sfx}', path.pc + list(side), T.not_(accept),
                                     note='the SDK never fails where the program succeeds' + (' with an in-bounds price' if in_bounds_only else ''))
                    o.replay = rp; obls.append(o)
        ctx.functions.update(e.executed)
        ctx.discharge(obls)
    return task


# ------------------------------------------------------------------ native differential replay (program vs SDK mirror with the ethnum shim)
_sdk_exe = {}


def sdk_native(fn, args):
    if 'exe' not in _sdk_exe:
        d = os.path.join(M.VERIF, 'sdk', 'replay')
        env = dict(os.environ); env['CARGO_NET_OFFLINE'] = 'true'; env.pop('RUSTUP_TOOLCHAIN', None)
        t = os.path.join(M.WORK, 'sdk_replay_t')
        p = subprocess.run(['cargo', 'build', '--offline', '--target-dir', t], cwd=d, env=env, capture_output=True, text=True)
        exe = os.path.join(t, 'debug', 'sdkreplay')
        _sdk_exe['exe'] = exe if p.returncode == 0 and os.path.exists(exe) else None
    if not _sdk_exe['exe']: return None
    return subprocess.run([_sdk_exe['exe'], fn] + [str(int(a)) for a in args], capture_output=True, text=True, timeout=60).stdout.strip()


def in_bounds_only_native(fn):
    return fn.startswith('get_next_sqrt_price')


def diff_replay(native, names, flag):
    prog_fn, sdk_fn = native
    def custom(env):
        from vlib import replay_m
        vals = [env.get(n) if env.get(n) is not None else 0 for n in names] + [1 if flag else 0]
        po = replay_m.native(prog_fn, vals)
        so = sdk_native(sdk_fn, vals)
        if po is None or so is None: return 'none', 'native drivers not built'
        p_ok = po.startswith('Ok:Valid') or (po.startswith('Ok ') )
        pv = int(po.split()[1]) if p_ok else None
        s_ok = so.startswith('Ok')
        sv = int(so.split()[1]) if s_ok else None
        info = f'program {prog_fn}({", ".join(map(str, vals))}) -> {po}; sdk {sdk_fn} -> {so}'
        overflow = any(k in po for k in OVERFLOW_KINDS)
        if s_ok and p_ok and pv != sv: return 'violates', info + ' : different values'
        if s_ok and overflow: return 'violates', info + ' : the SDK returns a number where the program rejects the input as overflowing'
        if not s_ok and p_ok and not (in_bounds_only_native(prog_fn) and not (MINP <= pv <= MAXP)):
            return 'violates', info + ' : the SDK fails where the program succeeds'
        return 'holds', info
    return custom


def tick_task(ctx):
    """tick_index_to_sqrt_price (SDK) == sqrt_price_from_tick_index (program) for every tick: both MIR bodies merged into one term over 19 symbolic bits"""
    from props import c09
    T.reset()
    obls = []
    es = M.Engine(sdk_mir(ctx)); es.merge = True; install_ethnum(es)
    ep = M.Engine(ctx.mir()); ep.merge = True; c09.install(ep)
    def ms96(e_, callee, args, path):
        a, b = e_.deref(args[0]).t, e_.deref(args[1]).t
        yield path, I(T.div(T.mul(a, b), C(1 << 96)), 'u128')
    es.summaries.insert(0, (re.compile(r'(^|::)mul_shift_96$'), ms96))
    for sign in (1, -1):
        syms = {k: T.bvar(f'b{"p" if sign > 0 else "n"}{k}') for k in range(c09.NBITS)}
        m = c09.bits_term({}, syms)
        tick = m if sign > 0 else T.sub(C(0), m)
        pre = [T.cmp('<=', m, C(c09.MAX_TICK))] + ([T.cmp('>=', m, C(1))] if sign < 0 else [])
        so = [(p, r) for p, r in es.run('tick_index_to_sqrt_price', [I(tick, 'i32')], Path(list(pre))) if not isinstance(r, Panic)]
        po = [(p, r) for p, r in ep.run('tick_math::sqrt_price_from_tick_index', [I(tick, 'i32')], Path(list(pre))) if not isinstance(r, Panic)]
        if len(so) != 1 or len(po) != 1:
            o = M.Obligation(f'sdk:tick_index_to_sqrt_price:{"pos" if sign > 0 else "neg"}:single_merged_path', [], FALSE, note=f'{len(so)}/{len(po)} paths'); o.replay = None
            obls.append(o); continue
        sv = so[0][1]; sv = sv.t if isinstance(sv, (I, U256)) else sv
        o = M.Obligation(f'sdk:tick_index_to_sqrt_price:{"pos" if sign > 0 else "neg"}:equals_program', so[0][0].pc + po[0][0].pc, T.cmp('=', sv, po[0][1].t),
                         note='same value on every tick of this sign (structural: both are the same chain of conditional floor-multiplications)')
        o.replay = None; o.abstract_div = True
        obls.append(o)
    ctx.functions.update(es.executed); ctx.functions.update(ep.executed)
    ctx.discharge(obls, cap=ctx.cap(120, 600))


def fees_task(ctx):
    """SDK swap-fee helpers vs the program's per-step formulas (compute_swap): net-of-fee budget = floor(a*(1e6-f)/1e6); fee on a curve input = ceil(a*f/(1e6-f))"""
    T.reset()
    e = M.Engine(sdk_mir(ctx))
    install_ethnum(e)
    obls = []
    a = T.var('amount', 0, 2**64 - 1); f = T.var('fee_rate', 0, 100000)
    MIL = C(1000000)
    for path, r in e.run('math::token::try_apply_swap_fee', [I(a, 'u64'), I(f, 'u32')], Path()):
        kind, val = sdk_kind(r)
        if kind == 'Ok':
            o = M.Obligation(f'sdk:try_apply_swap_fee:equals_program_budget:{len(obls)}', path.pc, T.cmp('=', val, T.div(T.mul(a, T.sub(MIL, f)), MIL)))
        else:
            o = M.Obligation(f'sdk:try_apply_swap_fee:never_fails:{kind}:{len(obls)}', path.pc, FALSE, note='the program computes this budget without error for every u64 amount and fee rate <= 100000')
        o.replay = None; obls.append(o)
    for path, r in e.run('math::token::try_reverse_apply_swap_fee', [I(a, 'u64'), I(f, 'u32')], Path()):
        kind, val = sdk_kind(r)
        N, D = T.mul(a, f), T.sub(MIL, f)
        # program fee = ceil(a*f/(1e6-f)) : x*D >= N and (x-1)*D < N
        if kind == 'Ok':
            x = T.sub(val, a)
            goal = T.and_(T.cmp('>=', T.mul(x, D), N), T.or_(T.cmp('=', x, C(0)), T.cmp('<', T.mul(T.sub(x, C(1)), D), N)))
            o = M.Obligation(f'sdk:try_reverse_apply_swap_fee:minus_amount_equals_program_fee:{len(obls)}', path.pc, goal,
                             note='pre_fee_amount - amount_in is the program\'s fee ceil(amount_in*rate/(1e6-rate))')
        else:
            # the SDK may only fail when amount_in + program fee does not fit u64 (the program's swap loop then fails with AmountCalcOverflow)
            q = T.div(T.add(N, T.sub(D, C(1))), D)
            o = M.Obligation(f'sdk:try_reverse_apply_swap_fee:fails_only_when_input_plus_fee_exceeds_u64:{kind}:{len(obls)}', path.pc, T.cmp('>', T.add(a, q), C(2**64 - 1)))
        o.replay = None; obls.append(o)
    ctx.functions.update(e.executed)
    ctx.discharge(obls)


def tasks():
    def delta_args(fb):
        p0 = T.var('p0', MINP, MAXP); p1 = T.var('p1', MINP, MAXP); L = T.var('L', 0, 2**128 - 1)
        return [I(p0, 'u128'), I(p1, 'u128'), I(L, 'u128'), B(fb)], [p0, p1, L, fb], [p0[1], p1[1], L[1]]
    def price_args(fb):
        p = T.var('p', MINP, MAXP); L = T.var('L', 0, 2**128 - 1); a = T.var('amt', 0, 2**64 - 1)
        return [I(p, 'u128'), I(L, 'u128'), I(a, 'u64'), B(fb)], [p, L, a, fb], [p[1], L[1], a[1]]
    return [
        ('sdk:delta_a', leaf_task('math::token::try_get_amount_delta_a', SP.spec_try_delta_a, delta_args, 'Ok:Valid', ('try_get_amount_delta_a', 'try_get_amount_delta_a'))),
        ('sdk:delta_b', leaf_task('math::token::try_get_amount_delta_b', SP.spec_try_delta_b, delta_args, 'Ok:Valid', ('try_get_amount_delta_b', 'try_get_amount_delta_b'))),
        ('sdk:next_a', leaf_task('math::token::try_get_next_sqrt_price_from_a', SP.spec_next_price_from_a, price_args, 'Ok', ('get_next_sqrt_price_from_a_round_up', 'try_get_next_sqrt_price_from_a'), True)),
        ('sdk:next_b', leaf_task('math::token::try_get_next_sqrt_price_from_b', SP.spec_next_price_from_b, price_args, 'Ok', ('get_next_sqrt_price_from_b_round_down', 'try_get_next_sqrt_price_from_b'), True)),
        ('sdk:tick', tick_task),
        ('sdk:fees', fees_task),
    ]


def run(ctx):
    ctx.mir(); sdk_mir(ctx)
    ctx.parallel(tasks(), max_procs=5)
