"""C13 — a dynamic tick array behaves exactly like a fixed one (Engine K): offset arithmetic and codec fully, data movement on enumerated one- and two-operation histories."""
ID = 'C13'
LEVEL = 'translation_validation'
TECHNIQUE = 'Kani/CBMC bounded model checking over the real crate; symbolic bitmaps/contents, concrete positions for data movement'
FUNCTIONS = [
    'state::DynamicTickArrayLoader::byte_offset / tick_bitmap (verif wrappers) vs pinocchio MemoryMappedDynamicTickArray::byte_offset / tick_bitmap vs bit-by-bit reference',
    'state::DynamicTick Borsh deserialize vs the byte encoding (tag + 7 LE fields)',
    'state::DynamicTickArrayLoader::update_tick + get_tick (one initialisation, slot 63)',
    'pinocchio MemoryMappedDynamicTickArray::update_tick + get_tick (one update, slot 63)',
    'state::DynamicTickArrayLoader::update_tick x2 + get_tick x2 + bitmap + tag bytes (initialise 70 then 63 below it; thorough: 63 then 70 above it)',
    'pinocchio MemoryMappedDynamicTickArray::update_tick x2 + get_tick x2 + bitmap + tag bytes (same two histories)',
    'the next-initialised search of the dynamic array vs the reference (k/src/c10.rs c10_a_dyn_scan_*, run by the C10 check) and the Pinocchio header/offset views vs Anchor (k/src/c12.rs c12_view_dynamic_header)',
]
BOUNDS = [
    'L1 byte_offset: every 128-bit bitmap, every slot 0..=88 (88 = end of encoding => used length 148 + 112*popcount), negative slot',
    'L1 codec: every 113-byte input',
    'L2 scenarios (2): empty array (start 0, spacing 1), ONE update at slot 63 with symbolic contents: Anchor (initialise, reduced rotate model), Pinocchio (initialise or no-op by a symbolic flag); both with the reduced rotate model',
    'L2 two-operation histories (quick: the Pinocchio accessor, slots 70 then 63, core assertion only — slot 70 keeps its contents; thorough: Anchor and Pinocchio, (70,63), (63,70), (1,0), (64,63), (87,86)): initialise slot 70 then slot 63 (the insertion moves the bytes of an initialised slot by 112), and 63 then 70; contents of both updates fully symbolic; unwind 800; 40 GB / 900 s per harness (measured ~130 s)',
]
ASSUMPTIONS = [
    'error conversions replaced by code-preserving stubs; message formatting stubbed; From<io::Error> for anchor Error replaced by a stub keeping the kind BorshIoError',
    'L2 harnesses: <[u8]>::rotate_right/left replaced by a reduced model that moves only the used bytes and ASSERTS that the rest of the slice is zero on every call',
    'harness allocates the whole 10 012-byte range the Anchor loader type claims (8 bytes more than a MAX_LEN account); the image is a repr(C) struct {60-byte header, 9 952-byte tick area} so that the bitmap stays constant for the symbolic executor (same bytes, same addresses)',
]
OUTSIDE = [
    'the three-way comparison Anchor dynamic / Pinocchio dynamic / fixed array on pre-states with several initialised slots (driver l2_scenario is written but NOT RUN as a harness: symbolic execution > 600 s per scenario)',
    'de-initialisation below an initialised slot (rotate_left moving data): three-operation histories ran out of 40 GB / 900 s, a byte-built pre-state did not finish either; modify in place; slots other than 63/70, spacings other than 1, the array straddling MIN_TICK_INDEX',
    'sequences longer than two operations; errors-on-the-same-inputs for update_tick; update_tick_bitmap / is_initialized_tick in isolation (private, no verif wrapper: observed only through the two L2 scenarios)',
    'account realloc (+-112 bytes) and rent movement in tick_array_manager (size decision Anchor == Pinocchio is C12 c12_modify_tick_array_equiv)',
    'next-initialised search dynamic vs fixed: C10 (a)',
]
EXPLANATION = (
    'Offset arithmetic of the encoding is decided for all bitmaps and slots and for both accessors; the Borsh tick codec is decided for all inputs; '
    'data movement is decided on the enumerated one- and two-operation histories only. Measured: a flat [u8; 10012] image makes the bitmap symbolic for CBMC (118 M clauses for one '
    'initialisation); splitting the header into its own struct member and keeping every `initialized` flag concrete brings one Anchor initialisation + read-back to 6 s.'
)


TECHNIQUE = TECHNIQUE + '; the dynamic- and fixed-array next-initialised searches against one reference are shared harnesses of k/src/c10.rs'


def run(ctx):
    # c10.rs: the `prop=C10,C13` harnesses (dynamic-array and fixed-array next-initialised search == the same reference, spacing 8)
    ctx.run_kani(['c13.rs', 'c10.rs'])
