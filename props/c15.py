"""C15 — instructions act only on accounts that belong to the pool they name (Engine K)."""
ID = 'C15'
LEVEL = 'model_checking'
TECHNIQUE = ('bounded model checking of the compiled code (Kani/CBMC, SAT): Anchor-generated try_accounts + handlers and Pinocchio handler prefixes over symbolic keys, signer flags and account bytes; '
             'symbolic execution of the MIR of the Anchor-generated try_accounts (22 struct tasks: every has_one / address / constraint / mut / Signer check executed, Anchor library loaders as summaries) and of the payout / '
             'Pinocchio liquidity handlers in handler mode into integer SMT (z3 5.1): relations demanded by the property on every accepting path')
FUNCTIONS = [
    'Anchor-generated <Accounts>::try_accounts + instructions::*::handler of the instructions in the coverage table (k/src/c04.rs, k/src/c15.rs)',
    'pinocchio::instructions::{increase_liquidity, decrease_liquidity, increase_liquidity_v2, decrease_liquidity_v2, increase_liquidity_by_token_amounts_v2, reposition_liquidity_v2}::handler (prefix up to Clock::get; tick-array loading up to pino_calculate_modify_liquidity)',
    'pinocchio AccountIterator::*, load_account(_mut), load_token_program_account, load_tick_array(_mut), TickArraysMut::load, verify_address, verify_constraint',
    'pino_verify_position_authority, util::verify_position_authority(_interface), util::validate_owner',
    'Engine M handler mode: instructions::{collect_fees, collect_reward, two_hop_swap}(::v2)::handler, pinocchio liquidity handlers (call order and arguments)',
    'Engine M on generated code: <{CollectFees, CollectFeesV2, CollectReward(V2) x index 0..2, CollectProtocolFees(V2), Swap, SwapV2, UpdateFeesAndRewards, ClosePosition, SetRewardEmissions(V2) x index 0..2} as Accounts>::try_accounts',
]
BOUNDS = ['unwind 34-40; Pinocchio v2/reposition instruction data: every argument byte symbolic, enum/option tag bytes fixed to 0 (method variant 0, remaining_accounts_info = None); handler-level tick arrays are 148-byte accounts behind a recording loader model, the real loader is decided separately on one 10 004-byte symbolic account',
          'keys, signer flags and relevant account fields fully symbolic; account data sizes fixed to the real LEN of each account type']
ASSUMPTIONS = [
    'c15m (Engine M): the Anchor LIBRARY loaders (<Account<T> / Signer / Program / ... as Accounts>::try_accounts) hand out the next account with symbolic key, data of the field type and flags, or fail; Signer implies is_signer (Anchor contract); named Pubkey constants are fixed distinct values',
    'reward_index < 3 (index >= 3 panics in the generated code); PDA seeds hashed by an ideal-hash memo only for <= 3 seeds of <= 32 bytes (asserted); CPI helpers record their arguments; Clock::get arbitrary; Rent::get fails (prefix)',
    'error conversions replaced by code-preserving stubs; message formatting stubbed',
    'sysvar syscalls (Clock/Rent) stubbed: prefix harnesses stop at the first sysvar call',
    'PDA derivation (sha256 + curve check) is not executed symbolically: structs with seeds= are checked up to the PDA comparison with an ideal-hash stub or excluded (listed in OUTSIDE)',
]
OUTSIDE = ['reposition_liquidity_v2 second range (existing range processed, then the new range): timed out at 900 s; same call site as the decided first range', 'non-None remaining_accounts_info in the Pinocchio handlers; owner-account mints (checked by the SPL token programs); CPIs after the cut',
           'lock_position try_accounts (init with System CPIs: spurious model failures / out of memory) — its handler is in C18; v1 collect handlers struct+handler in one harness (out of memory): struct by Kani, handler by Engine M handler mode', 'tick-array / oracle content checks of swap after Clock::get (the Anchor SparseSwapTickSequenceBuilder::try_build did not finish under CBMC: NOT decided; the Pinocchio loaders are)','account bytes unchanged on failure (runtime guarantee, not program code)',
           'init-constraint instructions are checked up to the first System-program CPI']


def run(ctx):
    # two-hop (24 Anchor accounts: the Kani struct+handler harness ran out of memory): distinct pools and shared intermediate mint are decided by Engine M in handler mode
    from props import mextra
    ctx.mir()
    # c15m: the Anchor-generated account validation (has_one / address / constraint / mut / Signer) of the payout, swap, update and close instructions from its MIR:
    #   on every accepting path the accounts are the named pool's (vaults, mints, position link, reward vault per index) — seconds, where the Kani struct harnesses are thorough-tier
    from props import c15m
    ctx.parallel(mextra.c15_tasks() + c15m.tasks(), max_procs=8)
    ctx.run_kani(['c04.rs', 'c04p.rs', 'c15.rs'])
