"""C15 — instructions act only on accounts that belong to the pool they name (Engine K)."""
ID = 'C15'
LEVEL = 'model_checking'
TECHNIQUE = 'bounded model checking of the compiled code (Kani/CBMC, SAT): Anchor-generated try_accounts + handlers and Pinocchio handler prefixes over symbolic keys, signer flags and account bytes'
FUNCTIONS = []
BOUNDS = ['keys, signer flags and relevant account fields fully symbolic; account data sizes fixed to the real LEN of each account type']
ASSUMPTIONS = [
    'reward_index < 3 (index >= 3 panics in the generated code); PDA seeds hashed by an ideal-hash memo only for <= 3 seeds of <= 32 bytes (asserted); CPI helpers record their arguments; Clock::get arbitrary; Rent::get fails (prefix)',
    'error conversions replaced by code-preserving stubs; message formatting stubbed',
    'sysvar syscalls (Clock/Rent) stubbed: prefix harnesses stop at the first sysvar call',
    'PDA derivation (sha256 + curve check) is not executed symbolically: structs with seeds= are checked up to the PDA comparison with an ideal-hash stub or excluded (listed in OUTSIDE)',
]
OUTSIDE = ['lock_position try_accounts (init with System CPIs: spurious model failures / out of memory) — its handler is in C18; v1 collect handlers struct+handler in one harness (out of memory): struct by Kani, handler by Engine M handler mode', 'tick-array / oracle content checks of swap after Clock::get (tick-array back-reference: C10 builder harness)','account bytes unchanged on failure (runtime guarantee, not program code)',
           'init-constraint instructions are checked up to the first System-program CPI']


def run(ctx):
    # two-hop (24 Anchor accounts: the Kani struct+handler harness ran out of memory): distinct pools and shared intermediate mint are decided by Engine M in handler mode
    from props import mextra
    ctx.mir()
    ctx.parallel(mextra.c15_tasks(), max_procs=2)
    ctx.run_kani(['c04.rs', 'c04p.rs', 'c15.rs'])
