"""C08 — liquidity converts to token amounts exactly: up on deposit, down on withdrawal (Engine M + K)."""
import time, os, re
from vlib import term as T, mirsmt as M, specs as SP
from vlib.term import C, TRUE, FALSE
from vlib.mirsmt import I, B, S, E, Path, Panic, Opaque
from props import c02

ID = 'C08'
LEVEL = 'model_checking'
TECHNIQUE = 'symbolic execution of rustc MIR into integer SMT (z3 5.1 NIA); tick->price as an uninterpreted strictly monotone function'
FUNCTIONS = ['pinocchio::instructions::{increase_liquidity, increase_liquidity_v2, decrease_liquidity, decrease_liquidity_v2, increase_liquidity_by_token_amounts_v2, reposition_liquidity_v2}::handler (handler mode)', 'manager::liquidity_manager::calculate_liquidity_token_deltas', 'pinocchio::ported::manager_liquidity_manager::pino_calculate_liquidity_token_deltas',
             'math::token_math::estimate_max_liquidity_from_token_amounts', 'math::token_math::get_amount_delta_a/b']
BOUNDS = ['loop-free; all in-bound prices, all tick pairs lower<upper within [MIN_TICK, MAX_TICK], |liquidity_delta| all i128, token maxima all u64']
ASSUMPTIONS = c02.ASSUMPTIONS + [
    'T1: sqrt_price_from_tick_index is strictly increasing with range [MIN_SQRT_PRICE, MAX_SQRT_PRICE] (decided in C09), modelled as an uninterpreted function with monotonicity instantiated on the queried ticks',
    'pool invariant linking tick and price: p(tick_current) <= sqrt_price <= p(tick_current+1) (equality on the right = shifted state after a downward crossing)',
    'Pinocchio byte accessors of MemoryMappedPosition return the field they decode (decided in C12)']
OUTSIDE = ['K12 (256-bit division kernel)']
EXPLANATION = 'MIR of the Anchor and Pinocchio delta functions executed against the proved delta leaf specs; results compared with the price-based exact amounts by cross-multiplication'

MINP, MAXP = SP.MINP, SP.MAXP
MIN_TICK, MAX_TICK = -443636, 443636
W64 = C(1 << 64)


class PriceFn:
    """uninterpreted strictly monotone tick -> sqrt price (T1)"""
    def __init__(self):
        self.memo = []      # (tick term, price var)
        self.side = []

    def price(self, t):
        for tt, pv in self.memo:
            if tt == t: return pv
        lo, hi = T.rng(t)
        p = T.fresh('pt', MINP, MAXP)
        cons = [T.implies(T.cmp('<=', t, C(MIN_TICK)), T.cmp('=', p, C(MINP))), T.implies(T.cmp('>=', t, C(MAX_TICK)), T.cmp('=', p, C(MAXP)))]
        for tt, pv in self.memo:
            cons.append(T.implies(T.cmp('<', t, tt), T.cmp('<', p, pv)))
            cons.append(T.implies(T.cmp('>', t, tt), T.cmp('>', p, pv)))
            cons.append(T.implies(T.cmp('=', t, tt), T.cmp('=', p, pv)))
        self.memo.append((t, p))
        self.side += cons
        return p

    def summary(self):
        def h(e, callee, args, path):
            t = e.deref(args[0]).t
            n0 = len(self.side)
            p = self.price(t)
            yield Path(path.pc + self.side[n0:], path.trace), I(p, 'u128')
        return h


def exact_spec(cur_price, pl, pu, L):
    """price-based exact amounts (N_a, D_a, N_b, D_b) for liquidity L in [pl, pu) at price P"""
    below = T.cmp('<=', cur_price, pl)
    above = T.cmp('>=', cur_price, pu)
    a_lo = T.ite(below, pl, T.ite(above, pu, cur_price))      # A is priced on [max(P,pl), pu]
    b_hi = T.ite(below, pl, T.ite(above, pu, cur_price))      # B is priced on [pl, min(P,pu)]
    Na, Da = T.mul(T.mul(L, T.sub(pu, a_lo)), W64), T.mul(pu, a_lo)
    Nb, Db = T.mul(L, T.sub(b_hi, pl)), W64
    return Na, Da, Nb, Db


def delta_goals(cur_price, pl, pu, absL, up, da, db):
    Na, Da, Nb, Db = exact_spec(cur_price, pl, pu, absL)
    g = {}
    if up:
        g['a_is_ceil'] = c02.is_ceil(da, Na, Da)
        g['b_is_ceil'] = c02.is_ceil(db, Nb, Db)
    else:
        g['a_is_floor'] = c02.is_floor(da, Na, Da)
        g['b_is_floor'] = c02.is_floor(db, Nb, Db)
    g['only_a_below'] = T.implies(T.cmp('<=', cur_price, pl), T.cmp('=', db, C(0)))
    g['only_b_above'] = T.implies(T.cmp('>=', cur_price, pu), T.cmp('=', da, C(0)))
    return g


def _native_int(fn, *a, profile='debug'):
    from vlib import replay_m
    out = replay_m.native(fn, list(a), profile)
    if out is None or not out.startswith('Ok'): return None
    return [int(x) for x in out.split()[1:]]


def price_candidates(cur):
    """concretise the abstract price: real prices inside tick `cur` incl. the shifted state"""
    pc = _native_int('sqrt_price_from_tick_index', max(cur, MIN_TICK))[0]
    pn = _native_int('sqrt_price_from_tick_index', min(cur + 1, MAX_TICK))[0]
    return sorted({pc, min(pc + 1, pn), (pc + pn) // 2, max(pn - 1, pc), pn})


def deltas_replay(cur_v, lower_v, upper_v, absL_v, positive, pino, gname):
    """replay the solver's (ticks, liquidity) on the real function for real prices of that tick"""
    def custom(env):
        cur, lo, up, L = (T.evaluate(x, env) for x in (cur_v, lower_v, upper_v, absL_v))
        pl = _native_int('sqrt_price_from_tick_index', lo)[0]; pu = _native_int('sqrt_price_from_tick_index', up)[0]
        infos = []
        # the model is abstract in the tick->price function: concretise with real prices of the model's tick and,
        # because amounts of tiny liquidity round to 0, also with a few larger liquidity magnitudes
        for L in [L] + [v for v in (2**32 + 1, 2**64 + 12345, 2**96 + 7) if v != L]:
          for P in price_candidates(cur):
            for prof in ('debug', 'release'):
                r = _native_int('liquidity_deltas', cur, P, lo, up, L, 1 if positive else 0, 1 if pino else 0, profile=prof)
                if r is None: continue          # only successful computations are constrained
                g = delta_goals(C(P), C(pl), C(pu), C(L), positive, C(r[0]), C(r[1]))[gname]
                if not T.evaluate(g, {}):
                    return 'violates', f'{prof}: liquidity_deltas(cur_tick={cur}, sqrt_price={P}, lower={lo}, upper={up}, |dL|={L}, add={positive}, pino={pino}) -> {r}: {gname} VIOLATED (p_lower={pl}, p_upper={pu})'
                infos.append(f'P={P}:{r}')
        return 'holds', 'no candidate price of the model tick reproduces: ' + ' '.join(infos[:6])
    return dict(custom=custom)


def deltas_task(pino, positive):
    def task(ctx):
        T.reset()
        e = M.Engine(ctx.mir())
        c02.install_summaries(e)
        pf = PriceFn()
        e.summaries.append((re.compile(r'sqrt_price_from_tick_index$'), pf.summary()))
        cur = T.var('cur_tick', MIN_TICK - 1, MAX_TICK)
        P = T.var('P', MINP, MAXP)
        lower = T.var('lower', MIN_TICK, MAX_TICK); upper = T.var('upper', MIN_TICK, MAX_TICK)
        absL = T.var('absL', 1, 2**127 - 1 if positive else 2**127)
        delta = absL if positive else T.sub(C(0), absL)
        pre = [T.cmp('<', lower, upper)]
        # pool invariant p(cur) <= P <= p(cur+1)
        p_cur = pf.price(cur); p_next = pf.price(T.add(cur, C(1)))
        pre += pf.side
        pre += [T.cmp('<=', p_cur, P), T.cmp('<=', P, p_next)]
        npre = len(pf.side)
        if pino:
            pos = S({'whirlpool': Opaque('k'), 'position_mint': Opaque('k'), 'liquidity': I(C(0), 'u128'),
                     'tick_lower_index': I(lower, 'i32'), 'tick_upper_index': I(upper, 'i32')})
            def acc(e_, callee, args, path):
                f = re.search(r'MemoryMappedPosition::(\w+)$', callee).group(1)
                yield path, e_.deref(args[0]).get(f)
            e.summaries.append((re.compile(r'MemoryMappedPosition::(tick_lower_index|tick_upper_index|liquidity)$'), acc))
            fname = 'pino_calculate_liquidity_token_deltas'
        else:
            pos = S([Opaque('k'), Opaque('k'), I(C(0), 'u128'), I(lower, 'i32'), I(upper, 'i32')])
            fname = 'liquidity_manager::calculate_liquidity_token_deltas'
        fr0 = M.Frame(None); fr0.loc = {'_900': pos}
        tag = f"deltas:{'pino' if pino else 'anchor'}:{'add' if positive else 'remove'}"
        outs = list(e.run(fname, [I(cur, 'i32'), I(P, 'u128'), M.Ref(fr0, '_900'), I(delta, 'i128')], Path(pre)))
        obls, wit = [], []
        pl, pu = pf.price(lower), pf.price(upper)
        n_ok = 0
        for i, (path, r) in enumerate(outs):
            if isinstance(r, Panic):
                o = M.Obligation(f'{tag}:path{i}:no_panic', path.pc, FALSE, note=r.msg); o.nontrivial = False; o.replay = None
                obls.append(o); continue
            if r.var != 'Ok': continue
            n_ok += 1
            tup = r.fields[0]
            da, db = tup.get('0').t, tup.get('1').t
            w = M.Obligation(f'{tag}:path{i}:witness', path.pc, FALSE); w.pathid = i; wit.append(w)
            for name, g in delta_goals(P, pl, pu, absL, positive, da, db).items():
                o = M.Obligation(f'{tag}:path{i}:{name}', path.pc + pf.side, g); o.pathid = i
                o.replay = deltas_replay(cur, lower, upper, absL, positive, pino, name)
                obls.append(o)
            nw = [ev[3] for ev in path.trace if ev[1] == 'nowrap']
            if nw:
                o = M.Obligation(f'{tag}:path{i}:no_wrap', path.pc + pf.side, T.and_(*nw)); o.pathid = i; o.replay = None
                obls.append(o)
        M.discharge(wit, 20, ctx.jobs, os.path.join(ctx.logdir, 'smt_wit'))
        feas = {w.pathid for w in wit if w.verdict == 'sat'}
        for o in obls:
            if hasattr(o, 'pathid'): o.nontrivial = o.pathid in feas
        ctx.extra['paths'] = {'outcomes': len(outs), 'ok_paths': n_ok, 'ok_paths_with_sat_witness': len(feas)}
        ctx.functions.update(e.executed)
        ctx.discharge(obls)
        # twin: the opposite rounding claim must be refuted by the solver and reproduce natively
        from vlib import replay_m
        wrong = 'a_is_floor' if positive else 'a_is_ceil'
        done = False
        for i, (path, r) in enumerate(outs):
            if isinstance(r, Panic) or r.var != 'Ok' or i not in feas: continue
            da, db = r.fields[0].get('0').t, r.fields[0].get('1').t
            g = delta_goals(P, pl, pu, absL, not positive, da, db)[wrong]
            tw = M.Obligation(f'{tag}:twin_wrong_rounding', path.pc + pf.side, g)
            M.discharge([tw], 60, 1, os.path.join(ctx.logdir, 'smt_twin'))
            if tw.verdict != 'sat': continue
            def custom(env, _cur=cur):
                cu, lo, up, L = (T.evaluate(x, env) for x in (cur, lower, upper, absL))
                plv = _native_int('sqrt_price_from_tick_index', lo)[0]; puv = _native_int('sqrt_price_from_tick_index', up)[0]
                for Lv in (L, 2**64 + 12345, 2**96 + 7):
                    for Pv in price_candidates(cu):
                        rr = _native_int('liquidity_deltas', cu, Pv, lo, up, Lv, 1 if positive else 0, 1 if pino else 0)
                        if rr is None: continue
                        gg = delta_goals(C(Pv), C(plv), C(puv), C(Lv), not positive, C(rr[0]), C(rr[1]))[wrong]
                        if not T.evaluate(gg, {}): return 'violates', f'liquidity_deltas({cu},{Pv},{lo},{up},{Lv}) -> {rr} refutes {wrong}'
                return 'holds', 'twin not reproduced'
            tw.replay = dict(custom=custom)
            v, info = replay_m.replay(tw, os.path.join(ctx.logdir, 'mreplay.log'))
            if v == 'violates':
                ctx.add(f'M:{tag}:twin', 'M', 'discharged', tw.time, info, False, {'obligation': tw.key, 'verdict': 'sat (as required)', 'native': info})
                done = True; break
        if not done:
            ctx.add(f'M:{tag}:twin', 'M', 'fault', 0, 'vacuity twin (opposite rounding) was not refuted/reproduced', False)
    return task


def roundtrip_task(ctx):
    """add L then remove L at an unchanged price: returned <= paid <= returned + 1 per token (Anchor MIR, two executions)"""
    T.reset()
    e = M.Engine(ctx.mir())
    c02.install_summaries(e)
    pf = PriceFn()
    e.summaries.append((re.compile(r'sqrt_price_from_tick_index$'), pf.summary()))
    cur = T.var('cur_tick', MIN_TICK - 1, MAX_TICK); P = T.var('P', MINP, MAXP)
    lower = T.var('lower', MIN_TICK, MAX_TICK); upper = T.var('upper', MIN_TICK, MAX_TICK)
    absL = T.var('absL', 1, 2**127 - 1)
    p_cur = pf.price(cur); p_next = pf.price(T.add(cur, C(1)))
    pre = [T.cmp('<', lower, upper)] + pf.side + [T.cmp('<=', p_cur, P), T.cmp('<=', P, p_next)]
    pos = S([Opaque('k'), Opaque('k'), I(C(0), 'u128'), I(lower, 'i32'), I(upper, 'i32')])
    fr0 = M.Frame(None); fr0.loc = {'_900': pos}
    fname = 'liquidity_manager::calculate_liquidity_token_deltas'
    obls = []
    n = 0
    for p1, r1 in e.run(fname, [I(cur, 'i32'), I(P, 'u128'), M.Ref(fr0, '_900'), I(absL, 'i128')], Path(pre)):
        if isinstance(r1, Panic) or r1.var != 'Ok': continue
        a_in, b_in = r1.fields[0].get('0').t, r1.fields[0].get('1').t
        for p2, r2 in e.run(fname, [I(cur, 'i32'), I(P, 'u128'), M.Ref(fr0, '_900'), I(T.sub(C(0), absL), 'i128')], p1):
            if isinstance(r2, Panic) or r2.var != 'Ok': continue
            a_out, b_out = r2.fields[0].get('0').t, r2.fields[0].get('1').t
            g = T.and_(T.cmp('<=', a_out, a_in), T.cmp('<=', a_in, T.add(a_out, C(1))),
                       T.cmp('<=', b_out, b_in), T.cmp('<=', b_in, T.add(b_out, C(1))))
            o = M.Obligation(f'roundtrip:pair{n}:never_gains_loses_at_most_one', p2.pc + pf.side, g); o.replay = None
            obls.append(o); n += 1
    ctx.extra['pairs'] = n
    ctx.functions.update(e.executed)
    ctx.discharge(obls)


def estimate_task(ctx):
    """estimate_max_liquidity_from_token_amounts returns the largest L whose (rounded-up) cost fits both maxima"""
    T.reset()
    e = M.Engine(ctx.mir())
    pf = PriceFn()
    e.summaries.append((re.compile(r'sqrt_price_from_tick_index$'), pf.summary()))
    P = T.var('P', MINP, MAXP)
    lower = T.var('lower', MIN_TICK, MAX_TICK); upper = T.var('upper', MIN_TICK, MAX_TICK)
    ma = T.var('max_a', 0, 2**64 - 1); mb = T.var('max_b', 0, 2**64 - 1)
    pre = [T.cmp('<', lower, upper)]
    outs = list(e.run('token_math::estimate_max_liquidity_from_token_amounts',
                      [I(P, 'u128'), I(lower, 'i32'), I(upper, 'i32'), I(ma, 'u64'), I(mb, 'u64')], Path(pre)))
    pl, pu = pf.price(lower), pf.price(upper)
    obls = []
    for i, (path, r) in enumerate(outs):
        if isinstance(r, Panic):
            o = M.Obligation(f'estimate:path{i}:no_panic', path.pc + pf.side, FALSE, note=r.msg); o.nontrivial = False; o.replay = None
            obls.append(o); continue
        if r.var != 'Ok': continue
        L = r.fields[0].t
        def cost_fits(Lx):
            Na, Da, Nb, Db = exact_spec(P, pl, pu, Lx)
            # ceil(N/D) <= max  <=>  N <= max*D
            return T.cmp('<=', Na, T.mul(ma, Da)), T.cmp('<=', Nb, T.mul(mb, Db))
        fa, fb = cost_fits(L)
        fa1, fb1 = cost_fits(T.add(L, C(1)))
        def est_replay(kind):
            def custom(env):
                lo, up, a, b_ = (T.evaluate(x, env) for x in (lower, upper, ma, mb))
                plv = _native_int('sqrt_price_from_tick_index', lo)[0]; puv = _native_int('sqrt_price_from_tick_index', up)[0]
                for Pv in sorted({max(plv - 1, MINP), plv, plv + 1, (plv + puv) // 2, puv - 1, puv, min(puv + 1, MAXP)}):
                    for (av, bv) in ((a, b_), (a | 1 << 40, b_ | 1 << 40), (2**64 - 1, 2**64 - 1)):
                        for prof in ('debug', 'release'):
                            r = _native_int('estimate_max_liquidity', Pv, lo, up, av, bv, profile=prof)
                            if r is None: continue
                            def fits(Lx):
                                Na, Da, Nb, Db = exact_spec(C(Pv), C(plv), C(puv), C(Lx))
                                return T.evaluate(T.and_(T.cmp('<=', Na, T.mul(C(av), Da)), T.cmp('<=', Nb, T.mul(C(bv), Db))), {})
                            ok = fits(r[0]) if kind == 'fits' else not fits(r[0] + 1)
                            if not ok:
                                return 'violates', f'{prof}: estimate_max_liquidity(P={Pv}, lower={lo}, upper={up}, max_a={av}, max_b={bv}) -> {r[0]}: {kind} VIOLATED'
                return 'holds', 'no concretisation reproduces'
            return dict(custom=custom)
        o = M.Obligation(f'estimate:path{i}:fits_both_maxima', path.pc + pf.side, T.and_(fa, fb)); o.replay = est_replay('fits'); obls.append(o)
        o = M.Obligation(f'estimate:path{i}:largest', path.pc + pf.side, T.not_(T.and_(fa1, fb1))); o.replay = est_replay('largest'); obls.append(o)
    ctx.extra['paths'] = {'outcomes': len(outs)}
    ctx.functions.update(e.executed)
    ctx.discharge(obls)


def run(ctx):
    ctx.mir()
    tasks = [(f"deltas:{'pino' if p else 'anchor'}:{'add' if s else 'remove'}", deltas_task(p, s)) for p in (False, True) for s in (True, False)]
    tasks += [('roundtrip', roundtrip_task), ('estimate', estimate_task)]
    # the live (Pinocchio) handlers: token maxima / minima are enforced on what the user pays / receives and the transfers move exactly the computed deltas
    from props import pino
    tasks += pino.tasks()
    ctx.parallel(tasks, max_procs=8)
