"""C17 — a two-hop swap equals its two single swaps with a matching intermediate amount (Engine M in handler mode on the real handlers' MIR)."""
import time, os, re
from vlib import term as T, mirsmt as M, handler as H
from vlib.term import C, TRUE, FALSE
from vlib.mirsmt import I, B, S, E, Path, Panic, Opaque, Boxed, Arr

ID = 'C17'
LEVEL = 'model_checking'
TECHNIQUE = ('symbolic execution of the rustc MIR of the two_hop_swap / swap instruction handlers (v1 and v2) into integer SMT (z3 5.1) in handler mode: swap(), '
             'update_and_swap_whirlpool(_v2), tick-sequence builder, oracle accessor, sysvar and event syscalls are recording summaries havocked by return type; '
             'obligations over the recorded call sequence and its argument terms')
FUNCTIONS = ['instructions::two_hop_swap::handler', 'instructions::swap::handler', 'instructions::v2::two_hop_swap::handler', 'instructions::v2::swap::handler']
BOUNDS = ['loop-free handler glue; every scalar argument, every returned PostSwapUpdate field and every account key symbolic; all four direction combinations and both modes (symbolic flags)']
ASSUMPTIONS = [
    'swap() is an arbitrary function of its arguments returning an arbitrary PostSwapUpdate or an error (its own behaviour: C02/C03/C06/C10)',
    'update_and_swap_whirlpool(_v2), SparseSwapTickSequenceBuilder, OracleAccessor, Clock::get, emit! are recording stubs (their behaviour: C06, C10, C14, C15)',
    'account validation (Anchor constraints) is not executed here: C15',
    'written step: because the two-hop handler calls swap() and update_and_swap_whirlpool() with exactly the argument tuples the single-swap handler uses (shown here) and these callees '
    'are deterministic functions of their arguments touching only the named pool, the resulting pool states coincide',
]
OUTSIDE = ['equality of the final pool states is derived from equality of the callee argument tuples (written step), not re-executed', 'SPL token movements (net-zero of the intermediate token at token-program level)']
EXPLANATION = 'Ok paths of the handler: recorded calls = [swap, swap, update, update] in the documented order with chained amounts; error of either leg or a mismatch aborts before any update'

U64 = 2**64 - 1


def build_ctx(e, struct_name, hv):
    """Context<Accounts> value: accounts are Acct cells keyed by fresh symbolic pubkeys; Whirlpool accounts carry a symbolic Whirlpool struct"""
    fields = hv.structs[struct_name]
    accts = {}
    for fname, ty in fields:
        key = I(T.var(f'key_{fname}', 0, (1 << 256) - 1), 'pubkey')
        data = None
        m = re.search(r'Account<\s*\'info\s*,\s*(\w+)\s*>', ty)
        if m and m.group(1) in ('Whirlpool', 'Position', 'WhirlpoolsConfig', 'FeeTier', 'PositionBundle'):
            data = hv.value(m.group(1), f'{fname}')
        elif m and m.group(1) in ('TokenAccount', 'TokenAccountInterface'):
            # spl token account, fields in declaration order of spl_token::state::Account (MIR addresses them by index)
            data = S({'mint': I(T.var(f'{fname}_mint', 0, (1 << 256) - 1), 'pubkey'), 'owner': I(T.var(f'{fname}_owner', 0, (1 << 256) - 1), 'pubkey'),
                      'amount': I(T.var(f'{fname}_amount', 0, 2**64 - 1), 'u64'), 'delegate': Opaque('delegate'), 'state': Opaque('state'),
                      'is_native': Opaque('is_native'), 'delegated_amount': I(T.var(f'{fname}_delegated_amount', 0, 2**64 - 1), 'u64'), 'close_authority': Opaque('close_authority')})
        a = H.Acct(fname, key, data)
        accts[fname] = Boxed(a) if ty.startswith('Box<') else a
    acc_struct = S(accts)
    fr0 = M.Frame(None); fr0.loc = {'_900': acc_struct}
    ctxv = S({'program_id': Opaque('program_id'), 'accounts': M.Ref(fr0, '_900'), 'remaining_accounts': Opaque('remaining'), 'bumps': Opaque('bumps')})
    return ctxv, accts, fr0


def acct(accts, name):
    a = accts[name]
    return a.val if isinstance(a, Boxed) else a


RECORD = [r'swap_manager::swap$', r'update_and_swap_whirlpool(_v2)?$', r'update_and_two_hop_swap_whirlpool_v2$', r'SparseSwapTickSequenceBuilder::<.*>::(new|try_build)$',
          r'OracleAccessor::<.*>::\w+$', r'SolanaSysvar>::get$', r'to_timestamp_u64$', r'anchor_lang::Event>::data$',
          r'swap_with_transfer_fee_extension$', r'calculate_transfer_fee_(ex|in)cluded_amount$', r'process_remaining_accounts|parse_remaining_accounts',
          r'is_supported_token_mint|verify_supported_token_mint', r'<Vec<u8> as Deref>::deref$', r'transfer_from_owner_to_vault|transfer_from_vault_to_owner']


def run_handler(ctx, fn_name, struct_name, scalars):
    T.reset()
    e = M.Engine(ctx.mir(), prune_ms=3000, max_steps=40000)
    H.install(e, record=RECORD)
    hv = e.havoc
    ctxv, accts, fr0 = build_ctx(e, struct_name, hv)
    args = [ctxv] + scalars(T)
    outs = list(e.run(fn_name, args, Path()))
    return e, accts, outs


def calls(path, rx):
    return [ev for ev in path.trace if ev[0] == 'call' and re.search(rx, ev[1])]


def val(e, v):
    v = H.snapshot(e, v)
    return v


def trade_enabled_goal(e, p):
    """on a successful path every recorded OracleAccessor::is_trade_enabled call returned Ok(true) (C14: trading is refused before the trade-enable time)"""
    rets = [ev[2] for ev in p.trace if ev[0] == 'ret' and re.search(r'OracleAccessor::<.*>::is_trade_enabled$', ev[1])]
    conds = []
    for rv in rets:
        v = rv.fields[0] if isinstance(rv, E) and rv.fields else rv
        if isinstance(v, B): conds.append(v.t)
        else: return None, 0
    return (T.and_(*conds) if conds else None), len(conds)


def two_hop_task(v2):
    def task(ctx):
        fn = 'instructions::v2::two_hop_swap::handler' if v2 else 'instructions::two_hop_swap::handler'
        st = 'TwoHopSwapV2' if v2 else 'TwoHopSwap'
        tag = 'two_hop_v2' if v2 else 'two_hop'
        sym = {}

        def scalars(T_):
            sym['amount'] = T_.var('amount', 0, U64); sym['thr'] = T_.var('other_amount_threshold', 0, U64)
            sym['exact_in'] = T_.bvar('amount_specified_is_input'); sym['a2b1'] = T_.bvar('a_to_b_one'); sym['a2b2'] = T_.bvar('a_to_b_two')
            sym['lim1'] = T_.var('sqrt_price_limit_one', 0, 2**128 - 1); sym['lim2'] = T_.var('sqrt_price_limit_two', 0, 2**128 - 1)
            a = [I(sym['amount'], 'u64'), I(sym['thr'], 'u64'), B(sym['exact_in']), B(sym['a2b1']), B(sym['a2b2']), I(sym['lim1'], 'u128'), I(sym['lim2'], 'u128')]
            if v2: a.append(Opaque('remaining_accounts_info'))
            return a
        e, accts, outs = run_handler(ctx, fn, st, scalars)
        swap_rx = r'swap_with_transfer_fee_extension$' if v2 else r'swap_manager::swap$'
        upd_rx = r'update_and_two_hop_swap_whirlpool_v2$' if v2 else r'update_and_swap_whirlpool$'
        obls = []
        n_ok = 0
        k1, k2 = acct(accts, 'whirlpool_one').key.t, acct(accts, 'whirlpool_two').key.t
        w1, w2 = acct(accts, 'whirlpool_one').data, acct(accts, 'whirlpool_two').data

        def ob(key, pc, goal, note=''):
            o = M.Obligation(f'{tag}:{key}', pc, goal, note=note); o.replay = None; obls.append(o)

        for i, (p, r) in enumerate(outs):
            sw, up = calls(p, swap_rx), calls(p, upd_rx)
            if isinstance(r, Panic):
                ob(f'path{i}:no_panic', p.pc, FALSE, r.msg); continue
            if isinstance(r, E) and r.var == 'Err':
                # an error raised by a leg, by the handler's own checks or by the earlier stubs aborts before any pool is updated
                # (an error returned by the update/transfer call itself aborts the transaction at the runtime level)
                code = r.fields[0].var if isinstance(r.fields[0], E) else ''
                if not re.search(r'update_and_(two_hop_)?swap', code):
                    ob(f'path{i}:err_without_update', p.pc, TRUE if not up else FALSE, f'{code}: {len(sw)} swap calls, {len(up)} updates before the error')
                continue
            n_ok += 1
            ok_shape = len(sw) == 2 and len(up) == (1 if v2 else 2)
            ob(f'path{i}:two_swaps_then_two_updates', p.pc, TRUE if ok_shape else FALSE, f'{len(sw)} swap calls, {len(up)} update calls (v2 updates both pools in one call)')
            if not ok_shape: continue
            order = [ev[1] for ev in p.trace if ev[0] == 'call' and (re.search(swap_rx, ev[1]) or re.search(upd_rx, ev[1]))]
            ob(f'path{i}:updates_after_both_swaps', p.pc, TRUE if all(re.search(swap_rx, x) for x in order[:2]) else FALSE)
            tg, ntg = trade_enabled_goal(e, p)
            ob(f'path{i}:trade_enabled_checked_for_both_pools', p.pc, tg if (tg is not None and ntg == 2) else FALSE, f'{ntg} is_trade_enabled results on the path')
            ob(f'path{i}:pools_distinct', p.pc, T.not_(T.cmp('=', k1, k2)))
            out_mint_1 = T.ite(sym['a2b1'], w1.get('token_mint_b').t, w1.get('token_mint_a').t)
            in_mint_2 = T.ite(sym['a2b2'], w2.get('token_mint_a').t, w2.get('token_mint_b').t)
            ob(f'path{i}:intermediate_mint_shared', p.pc, T.cmp('=', out_mint_1, in_mint_2))
            # which pool each call works on (first argument = the whirlpool account / its data)
            def pool_of(ev):
                a0 = ev[2][0]
                a0 = H.snapshot(e, a0)
                if isinstance(a0, H.Acct): return 1 if a0.name == 'whirlpool_one' else 2
                if a0 is w1: return 1
                if a0 is w2: return 2
                if isinstance(a0, S) and isinstance(a0.fields, dict) and 'sqrt_price' in a0.fields:
                    return 1 if a0.fields['sqrt_price'] is w1.fields['sqrt_price'] else 2
                return 0
            s_by_pool = {pool_of(ev): ev for ev in sw}
            if v2:
                # update_and_two_hop_swap_whirlpool_v2(update_one, update_two, whirlpool_one, whirlpool_two, a_to_b_one, a_to_b_two, ...)
                ua = [H.snapshot(e, x) for x in up[0][2][:6]]
                def is_pool(x, w): return isinstance(x, S) and isinstance(x.fields, dict) and x.fields.get('sqrt_price') is w.fields['sqrt_price'] or (isinstance(x, H.Acct) and x.data is w)
                u_pools = [1 if is_pool(ua[2], w1) else 0, 2 if is_pool(ua[3], w2) else 0]
            else:
                u_pools = [pool_of(ev) for ev in up]
            ob(f'path{i}:one_swap_per_pool', p.pc, TRUE if set(s_by_pool) == {1, 2} else FALSE, str([pool_of(ev) for ev in sw]))
            ob(f'path{i}:update_one_then_update_two', p.pc, TRUE if u_pools == [1, 2] else FALSE, str(u_pools))
            if set(s_by_pool) != {1, 2}: continue
            # swap(whirlpool, seq, amount, limit, exact_in, a_to_b, timestamp, fee_info): v1 indices; v2 wrapper: (whirlpool, mint_a, mint_b, seq, amount, limit, ...)
            off = 2 if v2 else 0
            def arg(ev, j): return H.snapshot(e, ev[2][j + off if j >= 1 else 0])
            a1, a2 = s_by_pool[1], s_by_pool[2]
            amt1, amt2 = arg(a1, 2).t, arg(a2, 2).t
            # results: the update calls carry the PostSwapUpdate that swap returned
            def upd_of(ev):
                for x in ev[2]:
                    x = H.snapshot(e, x)
                    if isinstance(x, S) and isinstance(x.fields, dict) and 'amount_a' in x.fields: return x
                return None
            if v2:
                r1, r2 = (H.snapshot(e, up[0][2][0]), H.snapshot(e, up[0][2][1]))
                r1 = r1 if isinstance(r1, S) and isinstance(r1.fields, dict) and 'amount_a' in r1.fields else None
                r2 = r2 if isinstance(r2, S) and isinstance(r2.fields, dict) and 'amount_a' in r2.fields else None
            else:
                r1, r2 = upd_of(up[0]), upd_of(up[1])
            ob(f'path{i}:updates_carry_swap_results', p.pc, TRUE if (r1 is not None and r2 is not None) else FALSE)
            if r1 is None or r2 is None: continue
            in1 = T.ite(sym['a2b1'], r1.get('amount_a').t, r1.get('amount_b').t); out1 = T.ite(sym['a2b1'], r1.get('amount_b').t, r1.get('amount_a').t)
            in2 = T.ite(sym['a2b2'], r2.get('amount_a').t, r2.get('amount_b').t); out2 = T.ite(sym['a2b2'], r2.get('amount_b').t, r2.get('amount_a').t)
            ob(f'path{i}:intermediate_amounts_match', p.pc, T.cmp('=', out1, in2), 'first leg output == second leg input')
            if not v2:
                ob(f'path{i}:legs_chained', p.pc, T.ite(sym['exact_in'], T.and_(T.cmp('=', amt1, sym['amount']), T.cmp('=', amt2, out1)),
                                                       T.and_(T.cmp('=', amt2, sym['amount']), T.cmp('=', amt1, in2))),
                   'exact-in: leg 1 runs on the specified amount, leg 2 on leg 1 output; exact-out: mirrored')
            else:
                ob(f'path{i}:legs_chained', p.pc, T.ite(sym['exact_in'], T.and_(T.cmp('=', amt1, sym['amount']), T.cmp('=', amt2, out1)), T.cmp('=', amt2, sym['amount'])),
                   'v2 exact-in: leg 1 runs on the specified amount, leg 2 on leg 1 output (vault-to-vault, one transfer fee); exact-out: leg 2 runs on the specified amount')
            ob(f'path{i}:limits_and_directions_passed_through', p.pc,
               T.and_(T.cmp('=', arg(a1, 3).t, sym['lim1']), T.cmp('=', arg(a2, 3).t, sym['lim2']),
                      T.beq(arg(a1, 4).t, sym['exact_in']), T.beq(arg(a2, 4).t, sym['exact_in']),
                      T.beq(arg(a1, 5).t, sym['a2b1']), T.beq(arg(a2, 5).t, sym['a2b2'])))
            ob(f'path{i}:same_timestamp_both_legs', p.pc, T.cmp('=', arg(a1, 6).t, arg(a2, 6).t))
            if not v2:
                ob(f'path{i}:threshold_on_outer_amount', p.pc, T.ite(sym['exact_in'], T.cmp('>=', out2, sym['thr']), T.cmp('<=', in1, sym['thr'])),
                   'exact-in: final output >= minimum; exact-out: initial input <= maximum')
            else:
                # exact-in: some fee-excluded conversion of the final output is >= the minimum (what the user receives)
                seq = [ev for ev in p.trace if ev[0] in ('call', 'ret') and re.search(r'calculate_transfer_fee_excluded_amount$', ev[1])]
                conds = []
                for a_, b_ in zip(seq, seq[1:]):
                    if a_[0] == 'call' and b_[0] == 'ret':
                        am = H.snapshot(e, a_[2][1]); rv = b_[2].fields[0] if isinstance(b_[2], E) else b_[2]
                        if isinstance(am, I) and isinstance(rv, S):
                            conds.append(T.and_(T.cmp('=', am.t, out2), T.cmp('>=', rv.get('amount').t, sym['thr'])))
                ob(f'path{i}:threshold_on_outer_amount', p.pc, T.ite(sym['exact_in'], T.or_(*conds) if conds else FALSE, T.cmp('<=', in1, sym['thr'])),
                   'v2 exact-in: final output net of its transfer fee >= minimum; exact-out: initial fee-inclusive input <= maximum')
        ctx.extra[tag] = {'paths': len(outs), 'ok_paths': n_ok, 'engine': dict(e.stats)}
        ctx.functions.update(e.executed)
        if n_ok == 0:
            ctx.add(f'M:{tag}:vacuity', 'M', 'fault', 0, 'no successful path through the handler', False)
        else:
            ctx.add(f'M:{tag}:vacuity', 'M', 'discharged', 0, f'{n_ok} successful paths', False)
        ctx.discharge(obls)
    return task


def single_task(v2):
    """the single-swap handler makes the same two calls with the same argument shapes (and enforces its threshold): C03 (ii) and the reference for C17"""
    def task(ctx):
        fn = 'instructions::v2::swap::handler' if v2 else 'instructions::swap::handler'
        st = 'SwapV2' if v2 else 'Swap'
        tag = 'single_v2' if v2 else 'single'
        sym = {}

        def scalars(T_):
            sym['amount'] = T_.var('amount', 0, U64); sym['thr'] = T_.var('other_amount_threshold', 0, U64)
            sym['lim'] = T_.var('sqrt_price_limit', 0, 2**128 - 1)
            sym['exact_in'] = T_.bvar('amount_specified_is_input'); sym['a2b'] = T_.bvar('a_to_b')
            a = [I(sym['amount'], 'u64'), I(sym['thr'], 'u64'), I(sym['lim'], 'u128'), B(sym['exact_in']), B(sym['a2b'])]
            if v2: a.append(Opaque('remaining_accounts_info'))
            return a
        e, accts, outs = run_handler(ctx, fn, st, scalars)
        swap_rx = r'swap_with_transfer_fee_extension$' if v2 else r'swap_manager::swap$'
        upd_rx = r'update_and_swap_whirlpool(_v2)?$'
        obls = []
        n_ok = 0

        def ob(key, pc, goal, note=''):
            o = M.Obligation(f'{tag}:{key}', pc, goal, note=note); o.replay = None; obls.append(o)
        off = 2 if v2 else 0
        for i, (p, r) in enumerate(outs):
            sw, up = calls(p, swap_rx), calls(p, upd_rx)
            if isinstance(r, Panic):
                ob(f'path{i}:no_panic', p.pc, FALSE, r.msg); continue
            if isinstance(r, E) and r.var == 'Err':
                code = r.fields[0].var if isinstance(r.fields[0], E) else ''
                if not re.search(r'update_and_(two_hop_)?swap', code):
                    ob(f'path{i}:err_without_update', p.pc, TRUE if not up else FALSE, code)
                continue
            n_ok += 1
            ok_shape = len(sw) == 1 and len(up) == 1
            ob(f'path{i}:one_swap_then_one_update', p.pc, TRUE if ok_shape else FALSE, f'{len(sw)} swaps, {len(up)} updates')
            if not ok_shape: continue
            tg, ntg = trade_enabled_goal(e, p)
            ob(f'path{i}:trade_enabled_checked', p.pc, tg if (tg is not None and ntg == 1) else FALSE, f'{ntg} is_trade_enabled results on the path')
            a = sw[0]
            def arg(j): return H.snapshot(e, a[2][j + off if j >= 1 else 0])
            ob(f'path{i}:arguments_passed_through', p.pc,
               T.and_(T.cmp('=', arg(2).t, sym['amount']), T.cmp('=', arg(3).t, sym['lim']), T.beq(arg(4).t, sym['exact_in']), T.beq(arg(5).t, sym['a2b'])))
            ru = None
            for x in up[0][2]:
                x = H.snapshot(e, x)
                if isinstance(x, S) and isinstance(x.fields, dict) and 'amount_a' in x.fields: ru = x
            ob(f'path{i}:update_carries_swap_result', p.pc, TRUE if ru is not None else FALSE)
            if ru is None: continue
            inp = T.ite(sym['a2b'], ru.get('amount_a').t, ru.get('amount_b').t); out = T.ite(sym['a2b'], ru.get('amount_b').t, ru.get('amount_a').t)
            if not v2:
                ob(f'path{i}:threshold_enforced', p.pc, T.ite(sym['exact_in'], T.cmp('>=', out, sym['thr']), T.cmp('<=', inp, sym['thr'])),
                   'exact-in: output >= minimum; exact-out: input <= maximum (thresholds equal to / one off the realised amount are covered: the threshold is symbolic)')
            else:
                # v2: the minimum applies to what the user actually receives = output net of its transfer fee (first fee-excluded conversion on the path)
                seq = [ev for ev in p.trace if ev[0] in ('call', 'ret') and re.search(r'calculate_transfer_fee_excluded_amount$', ev[1])]
                ok_in = FALSE
                if len(seq) >= 2 and seq[0][0] == 'call' and seq[1][0] == 'ret':
                    a_amt = H.snapshot(e, seq[0][2][1]); rv = seq[1][2]
                    rv = rv.fields[0] if isinstance(rv, E) else rv
                    if isinstance(rv, S) and isinstance(a_amt, I):
                        ok_in = T.and_(T.cmp('=', a_amt.t, out), T.cmp('>=', rv.get('amount').t, sym['thr']))
                ob(f'path{i}:threshold_enforced', p.pc, T.ite(sym['exact_in'], ok_in, T.cmp('<=', inp, sym['thr'])),
                   'v2 exact-in: (output net of transfer fee) >= minimum; exact-out: fee-inclusive input <= maximum')
            # the emitted trade record reports the moved amounts (C06)
            evs = calls(p, r'anchor_lang::Event>::data$')
            if not v2 and evs:
                tr = H.snapshot(e, evs[0][2][0])
                if isinstance(tr, S) and isinstance(tr.fields, dict) and 'input_amount' in tr.fields:
                    ob(f'path{i}:event_reports_moved_amounts', p.pc,
                       T.and_(T.cmp('=', tr.get('input_amount').t, inp), T.cmp('=', tr.get('output_amount').t, out),
                              T.cmp('=', tr.get('lp_fee').t, ru.get('lp_fee').t), T.cmp('=', tr.get('protocol_fee').t, ru.get('next_protocol_fee').t)))
        ctx.extra[tag] = {'paths': len(outs), 'ok_paths': n_ok, 'engine': dict(e.stats)}
        ctx.functions.update(e.executed)
        ctx.add(f'M:{tag}:vacuity', 'M', 'discharged' if n_ok else 'fault', 0, f'{n_ok} successful paths', False)
        ctx.discharge(obls)
    return task


def run(ctx):
    ctx.mir()
    ctx.parallel([('two_hop', two_hop_task(False)), ('single', single_task(False)), ('two_hop_v2', two_hop_task(True)), ('single_v2', single_task(True))], max_procs=4)
