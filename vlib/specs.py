"""Closed-form functional specifications of the arithmetic leaves (contracts A1, D1 of DESIGN §5).

Each spec returns a list of outcomes (kind, cond, value, side): `kind` names the outcome, `cond`
is its exact condition over the inputs, `value` its exact value (terms over fresh q/r variables
constrained by the division lemma in `side`).  A leaf's MIR is proved *equivalent* to its spec
(`leaf_obligations`), then callers are executed against the spec (`as_summary`).
"""
import re
from . import term as T
from .term import C, TRUE, FALSE
from . import mirsmt as M
from .mirsmt import I, B, E, S, U256, Path, Panic, P2

MINP, MAXP = 4295048016, 79226673515401279992447579055
W64 = C(1 << 64)


def order(p0, p1):
    le = T.cmp('<=', p0, p1)
    return T.ite(le, p0, p1), T.ite(le, p1, p0)


def ceil_if(e, n, d, up, side):
    """q + [up and r>0] with n = q*d + r"""
    q, r = e.divrem(n, d, side)
    return T.add(q, T.ite(T.and_(up, T.cmp('>', r, C(0))), C(1), C(0))), q, r


# ------------------------------------------------------------------ D1: token deltas
def spec_try_delta_a(e, p0, p1, L, up):
    lo, hi = order(p0, p1)
    dp = T.sub(hi, lo)
    P = T.mul(L, dp)
    outs = [('Err:MultiplicationOverflow', T.cmp('>=', P, P2(192)), None, [])]
    side = []
    N = T.mul(P, W64); D = T.mul(hi, lo)
    v, q, r = ceil_if(e, N, D, up, side)
    base = T.and_(T.cmp('<', P, P2(192)), T.cmp('>', D, C(0)))
    outs.append(('Ok:Valid', T.and_(base, T.cmp('<', v, W64)), v, side))
    outs.append(('Ok:ExceedsMax:TokenMaxExceeded', T.and_(base, T.cmp('>=', v, W64), T.cmp('<', v, P2(128))), None, side))
    outs.append(('Ok:ExceedsMax:NumberDownCastError', T.and_(base, T.cmp('>=', v, P2(128))), None, side))
    outs.append(('Panic', T.and_(T.cmp('<', P, P2(192)), T.cmp('=', D, C(0))), None, []))
    return outs


def spec_try_delta_b(e, p0, p1, L, up):
    lo, hi = order(p0, p1)
    dp = T.sub(hi, lo)
    P = T.mul(L, dp)
    side = []
    q = T.div(P, W64); r = T.mod(P, W64)
    rnd = T.and_(up, T.cmp('>', r, C(0)))
    v = T.add(q, T.ite(rnd, C(1), C(0)))
    fits = T.cmp('<', P, P2(128))
    outs = [
        ('Ok:ExceedsMax:MultiplicationShiftRightOverflow', T.cmp('>=', P, P2(128)), None, []),
        ('Ok:ExceedsMax:MultiplicationOverflow', T.and_(fits, rnd, T.cmp('=', q, C((1 << 64) - 1))), None, side),
        ('Ok:Valid', T.and_(fits, T.not_(T.and_(rnd, T.cmp('=', q, C((1 << 64) - 1))))), v, side),
    ]
    return outs


def unpack(r):
    """outcome kind string of a MIR return value of Result<AmountDeltaU64, ErrorCode> / Result<int, ErrorCode>"""
    if isinstance(r, Panic): return 'Panic', None
    if r.var == 'Err': return 'Err:' + r.fields[0].var, None
    inner = r.fields[0]
    if isinstance(inner, E):
        if inner.var == 'Valid': return 'Ok:Valid', inner.fields[0].t
        return 'Ok:ExceedsMax:' + inner.fields[0].var, None
    if isinstance(inner, I): return 'Ok', inner.t
    if isinstance(inner, U256): return 'Ok', inner.t
    return 'Ok', inner


def pack_delta(kind, v):
    if kind.startswith('Err:'): return E('Err', [E(kind[4:])])
    if kind == 'Ok:Valid': return E('Ok', [E('Valid', [I(v, 'u64')])])
    if kind.startswith('Ok:ExceedsMax:'): return E('Ok', [E('ExceedsMax', [E(kind.split(':')[2])])])
    if kind == 'Panic': return Panic('spec panic')
    raise ValueError(kind)


def as_summary(spec, pack, nargs=None):
    """turn a spec into a call handler for Engine.summaries"""
    def h(e, callee, args, path):
        vals = []
        for a in args:
            a = e.deref(a)
            vals.append(a.t)
        for kind, cond, v, side in spec(e, *vals):
            p = e.fork(path, cond)
            if p is None: continue
            if side: p = Path(p.pc + list(side), p.trace)
            yield p, pack(kind, v)
    return h


def leaf_obligations(e, fname, args, spec, spec_args, pre=(), tag=''):
    """MIR of `fname` ≡ spec: every feasible path's outcome kind exists in the spec, its condition
    holds and its value agrees; plus pairwise disjointness of the spec's outcome conditions."""
    outs = spec(e, *spec_args)
    byk = {}
    for kind, cond, v, side in outs:
        byk[kind] = (cond, v, side)
    obls = []
    n = 0
    for path, r in e.run(fname, args, Path(list(pre))):
        kind, val = unpack(r)
        key = f'{tag or fname}:path{n}:{kind}'
        n += 1
        if kind not in byk:
            obls.append(M.Obligation(key + ':unexpected-outcome', path.pc, FALSE, note='outcome kind not in spec'))
            continue
        cond, v, side = byk[kind]
        goal = cond
        if v is not None and val is not None:
            goal = T.and_(cond, T.cmp('=', val, v))
        obls.append(M.Obligation(key, path.pc + list(side), goal))
    ks = list(byk.items())
    for i in range(len(ks)):
        for j in range(i + 1, len(ks)):
            (k1, (c1, _, s1)), (k2, (c2, _, s2)) = ks[i], ks[j]
            obls.append(M.Obligation(f'{tag or fname}:spec-disjoint:{k1}|{k2}', list(pre) + list(s1) + list(s2), T.not_(T.and_(c1, c2))))
    return obls


# ------------------------------------------------------------------ next sqrt price (A-side rounds up, B-side rounds down)
def spec_next_price_from_a(e, p, L, amt, inp):
    P = T.mul(L, p)
    pos = T.cmp('>', amt, C(0))
    fits = T.cmp('<', P, P2(192))
    Lsh = T.mul(W64, L)
    prod = T.mul(p, amt)
    dz = T.and_(T.not_(inp), T.cmp('<=', Lsh, prod))
    denom = T.ite(inp, T.add(Lsh, prod), T.sub(Lsh, prod))
    side = []
    price, q, r = ceil_if(e, T.mul(W64, P), denom, TRUE, side)
    base = T.and_(pos, fits, T.not_(dz))
    inb = T.and_(T.cmp('>=', price, C(MINP)), T.cmp('<=', price, C(MAXP)))
    return [
        ('Err:MultiplicationOverflow', T.and_(pos, T.not_(fits)), None, []),
        ('Err:DivideByZero', T.and_(pos, fits, dz), None, []),
        ('Err:NumberDownCastError', T.and_(base, T.cmp('>=', price, P2(128))), None, side),
        ('Err:TokenMinSubceeded', T.and_(base, T.cmp('<', price, C(MINP))), None, side),
        ('Err:TokenMaxExceeded', T.and_(base, T.cmp('>', price, C(MAXP)), T.cmp('<', price, P2(128))), None, side),
        ('Ok', T.or_(T.not_(pos), T.and_(base, inb)), T.ite(pos, price, p), side),
    ]


def spec_next_price_from_b(e, p, L, amt, inp):
    side = []
    n = T.mul(W64, amt)
    nz = T.cmp('>', L, C(0))
    delta, q, r = ceil_if(e, n, L, T.not_(inp), side)
    nxt = T.ite(inp, T.add(p, delta), T.sub(p, delta))
    ok = T.and_(T.cmp('>=', nxt, C(0)), T.cmp('<', nxt, P2(128)))
    return [
        ('Err:DivideByZero', T.not_(nz), None, []),
        ('Err:SqrtPriceOutOfBounds', T.and_(nz, T.not_(ok)), None, side),
        ('Ok', T.and_(nz, ok), nxt, side),
    ]


def pack_u128(kind, v):
    if kind.startswith('Err:'): return E('Err', [E(kind[4:])])
    if kind == 'Ok': return E('Ok', [I(v, 'u128')])
    if kind == 'Panic': return Panic('spec panic')
    raise ValueError(kind)


def spec_mul_div_round_up_if(e, n0, n1, d, up):
    side = []
    P = T.mul(n0, n1)
    v, q, r = ceil_if(e, P, d, up, side)
    nz = T.cmp('>', d, C(0))
    fits = T.cmp('<', P, P2(128))
    return [
        ('Err:DivideByZero', T.not_(nz), None, []),
        ('Err:MulDivOverflow', T.and_(nz, T.not_(fits)), None, []),
        ('Ok', T.and_(nz, fits), v, side),
    ]


def spec_mul_shift_right_round_up_if(e, n0, n1, up):
    """checked_mul_shift_right_round_up_if(n0, n1, up): floor/ceil of n0*n1 / 2^64 as u64; zero factor => 0;
    Err(MultiplicationShiftRightOverflow) iff the product does not fit u128; Err(MultiplicationOverflow) iff rounding up overflows u64"""
    P = T.mul(n0, n1)
    zero = T.or_(T.cmp('=', n0, C(0)), T.cmp('=', n1, C(0)))
    fits = T.cmp('<', P, P2(128))
    q = T.div(P, W64); r = T.mod(P, W64)
    rnd = T.and_(up, T.cmp('>', r, C(0)))
    v = T.add(q, T.ite(rnd, C(1), C(0)))
    top = T.and_(rnd, T.cmp('=', q, C((1 << 64) - 1)))
    return [
        ('Err:MultiplicationShiftRightOverflow', T.and_(T.not_(zero), T.not_(fits)), None, []),
        ('Err:MultiplicationOverflow', T.and_(T.not_(zero), fits, top), None, []),
        ('Ok', T.or_(zero, T.and_(fits, T.not_(top))), T.ite(zero, C(0), v), []),
    ]
