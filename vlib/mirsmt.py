"""Engine M — `mirsmt`: symbolic execution of rustc's textual MIR into integer SMT terms.

Front end: `dump_mir()` runs the nightly compiler on /repo's *current* tree (forced rebuild of the
whirlpool crate) and parses every function body.  Execution is path-wise; forks are pruned with an
incremental z3 check; callees are either executed from their own MIR, replaced by a *summary*
(closed-form spec proved equivalent elsewhere), or modelled (core primitives, 256-bit kernels).
"""
import os, re, subprocess, time, hashlib, shutil, glob, json
from concurrent.futures import ThreadPoolExecutor
from . import term as T
from .term import C, TRUE, FALSE

VERIF = os.path.dirname(os.path.dirname(os.path.abspath(__file__)))
WORK = os.path.join(VERIF, '.work')

BITS = {'u8': 8, 'u16': 16, 'u32': 32, 'u64': 64, 'u128': 128, 'usize': 64,
        'i8': 8, 'i16': 16, 'i32': 32, 'i64': 64, 'i128': 128, 'isize': 64}


def P2(k): return C(1 << k)


# =============================================================================== front end
REPO = os.environ.get('VERIF_REPO', '/repo')


def dump_mir(tag='whirlpool', crate_dir=None, pkg=None, features='verif', name=None):
    """(re)generate the MIR dump from the current working tree; returns the path"""
    crate_dir = crate_dir or os.path.join(REPO, 'programs/whirlpool')
    tdir = os.path.join(WORK, 'mir' if REPO == '/repo' else 'mir_' + hashlib.sha1(REPO.encode()).hexdigest()[:8])
    os.makedirs(tdir, exist_ok=True)
    out = os.path.join(tdir, f'{tag}.{os.getpid()}.mir')
    # force re-emission: cargo prints MIR only when the crate is actually recompiled
    name = name or (pkg.split('@')[0].replace('-', '_') if pkg else 'whirlpool')
    for fp in glob.glob(os.path.join(tdir, 'debug', '.fingerprint', f'{name}-*')):
        shutil.rmtree(fp, ignore_errors=True)
    cmd = ['cargo', '+nightly', 'rustc', '--offline', '--lib', '--target-dir', tdir]
    if pkg: cmd += ['-p', pkg]
    elif features: cmd += ['--features', features]
    cmd += ['--', '-Zunpretty=mir', '-C', 'debug-assertions=off', '-C', 'overflow-checks=off']
    env = dict(os.environ); env['CARGO_NET_OFFLINE'] = 'true'; env.pop('RUSTUP_TOOLCHAIN', None)
    with open(out, 'w') as f, open(out + '.log', 'w') as lf:
        p = subprocess.run(cmd, cwd=crate_dir, stdout=f, stderr=lf, env=env)
    if p.returncode != 0 or os.path.getsize(out) < 1000:
        raise RuntimeError('MIR dump failed, see ' + out + '.log')
    return out


FN_RE = re.compile(r'^fn ([^\n]*?) \{\n(.*?)\n\}\n', re.S | re.M)


def split_top(s, sep=','):
    out, depth, cur = [], 0, ''
    i = 0
    while i < len(s):
        ch = s[i]
        if ch in '([{<': depth += 1
        elif ch in ')]}': depth -= 1
        elif ch == '>' and (i == 0 or s[i - 1] not in '-='): depth -= 1
        if ch == sep and depth == 0:
            out.append(cur.strip()); cur = ''
        else:
            cur += ch
        i += 1
    if cur.strip(): out.append(cur.strip())
    return out


class Fn:
    def __init__(self, name, sig, body):
        self.name, self.sig = name, sig
        self.blocks, self.locals = {}, {}
        self.debug = {}          # source-level variable name -> MIR local (first binding wins)
        self.nargs = len(split_top(sig)) if sig.strip() else 0
        cur = None
        for line in body.split('\n'):
            s = line.strip()
            m = re.match(r'debug (\w+) => (_\d+);$', s)
            if m:
                self.debug.setdefault(m.group(1), m.group(2)); continue
            m = re.match(r'let (?:mut )?(_\d+): (.*);$', s)
            if m:
                self.locals[m.group(1)] = m.group(2); continue
            m = re.match(r'(bb\d+)(?: \(cleanup\))?: \{$', s)
            if m:
                cur = m.group(1); self.blocks[cur] = []; continue
            if s == '}' or not s: continue
            if cur is not None and not s.startswith(('debug ', 'scope ', 'let ')):
                self.blocks[cur].append(s)
        for i, a in enumerate(split_top(sig)):
            m = re.match(r'(_\d+): (.*)$', a)
            if m: self.locals[m.group(1)] = m.group(2)


def fn_succ(fn):
    """successor map of the (non-cleanup) CFG, read off each block's terminator"""
    succ = {}
    for bb, sts in fn.blocks.items():
        term = sts[-1] if sts else ''
        t = re.sub(r'unwind: bb\d+', '', term)
        succ[bb] = [x for x in dict.fromkeys(re.findall(r'bb\d+', t.split(' -> ', 1)[1] if ' -> ' in t else ''))]
    return succ


def fn_loops(fn):
    """loop headers (targets of DFS back edges from bb0) in order of first visit, with their body blocks"""
    succ = fn_succ(fn)
    heads, order, state, backs = [], [], {}, []
    stack = [('bb0', iter(succ.get('bb0', [])))]
    state['bb0'] = 1; order.append('bb0')
    while stack:
        bb, it = stack[-1]
        nxt = next(it, None)
        if nxt is None:
            state[bb] = 2; stack.pop(); continue
        if state.get(nxt) == 1:
            backs.append((bb, nxt))
            if nxt not in heads: heads.append(nxt)
        elif nxt not in state:
            state[nxt] = 1; order.append(nxt); stack.append((nxt, iter(succ.get(nxt, []))))
    heads.sort(key=order.index)
    pred = {}
    for a, bs in succ.items():
        for b in bs: pred.setdefault(b, []).append(a)
    out = []
    for h in heads:
        # natural loop body: blocks that reach a back edge source without passing through h
        body = {h}
        work = [a for a, hh in backs if hh == h]
        while work:
            x = work.pop()
            if x in body: continue
            body.add(x); work.extend(pred.get(x, []))
        out.append((h, body))
    return out


def _reaches(succ, src, dst):
    seen, work = set(), [src]
    while work:
        x = work.pop()
        if x == dst: return True
        if x in seen: continue
        seen.add(x); work.extend(succ.get(x, []))
    return False


def fn_ipdom(fn):
    """immediate post-dominators of the CFG (virtual exit = blocks without successors)"""
    if getattr(fn, '_ipdom', None) is not None: return fn._ipdom
    succ = fn_succ(fn)
    nodes = list(fn.blocks)
    EXIT = '__exit__'
    rs = {n: (succ[n] if succ[n] else [EXIT]) for n in nodes}
    pdom = {n: set(nodes) | {EXIT} for n in nodes}
    pdom[EXIT] = {EXIT}
    changed = True
    while changed:
        changed = False
        for n in nodes:
            new = None
            for m in rs[n]:
                new = set(pdom[m]) if new is None else new & pdom[m]
            new = (new or set()) | {n}
            if new != pdom[n]:
                pdom[n] = new; changed = True
    ip = {}
    for n in nodes:
        cands = pdom[n] - {n}
        best = None
        for c in cands:
            # the immediate one is post-dominated by all the other strict post-dominators
            if all(o == c or o in pdom.get(c, {EXIT}) for o in cands):
                best = c; break
        ip[n] = None if best in (None, EXIT) else best
    fn._ipdom = ip
    return ip


def assigned_locals(fn, blocks):
    out = set()
    for bb in blocks:
        for st in fn.blocks[bb]:
            m = re.match(r'^\(?\*?\(?(_\d+)\b[^=]*? = ', st)
            if m: out.add(m.group(1))
            for m in re.finditer(r'&mut (_\d+)\b', st): out.add(m.group(1))
    return out


class Mir:
    def __init__(self, path):
        self.path = path
        txt = open(path).read()
        self.txt = txt
        self.fns, self.consts = {}, {}
        for m in re.finditer(r'^const ([^\n]*?): (\w+) = const (-?\d+)_\w+;$', txt, re.M):
            self.consts[m.group(1).strip()] = (int(m.group(3)), m.group(2))
        self.const_bodies = {}
        for m in re.finditer(r'^(?:const|static) ([^\n{]*?): ([^\n=]*?) = \{\n(.*?)\n\}\n', txt, re.S | re.M):
            if ('promoted[' not in m.group(1) and re.search(r'WithOverflow|Mul\(|Add\(|Sub\(|Shl\(', m.group(3))) or 'RangeInclusive::<' in m.group(3):
                self.const_bodies[m.group(1).strip()] = (m.group(2).strip(), m.group(3))     # computed constant: evaluated by the engine on first use
            v = re.search(r'_0 = const (-?\d+)_(\w+);', m.group(3))
            if v is None and re.search(r'_0 = &_1;', m.group(3)):      # promoted reference to an integer constant
                v = re.search(r'_1 = const (-?\d+)_(\w+);', m.group(3))
            if v: self.consts[m.group(1).strip()] = (int(v.group(1)), v.group(2))
            else:
                v = re.search(r'_0 = const ([\w:]+) as (\w+) \(IntToInt\);', m.group(3))
                if v: self._deferred = getattr(self, '_deferred', []) + [(m.group(1).strip(), v.group(1), v.group(2))]
        for m in FN_RE.finditer(txt):
            head, body = m.group(1), m.group(2)
            hm = re.match(r'(.*?)\((.*)\) -> (.*)$', head, re.S)
            if hm:
                name = hm.group(1).strip()
                self.fns.setdefault(name, Fn(name, hm.group(2), body))
        for name, ref, ty in getattr(self, '_deferred', []):
            cv = self.const(ref)
            if cv and ty in BITS: self.consts[name] = (cv[0], ty)
        self.sha = hashlib.sha1(txt.encode()).hexdigest()[:12]
        # `<impl at file:line:..>::method` -> `Type::method` (type read from the source line of the impl)
        self.alias = {}
        cache = {}
        for k in list(self.fns):
            m = re.search(r'<impl at ([^:>]+):(\d+):', k)
            if not m: continue
            f = m.group(1)
            for root in (REPO + '/', '/repo/', ''):
                if os.path.exists(root + f): f = root + f; break
            if f not in cache:
                try: cache[f] = open(f).read().split('\n')
                except Exception: cache[f] = []
            ls = cache[f]; ln = int(m.group(2)) - 1
            if ln < len(ls):
                t = re.search(r'impl(?:<[^>]*>)?\s+(?:[\w:<>, \']+\s+for\s+)?([\w]+)', ls[ln])
                if t:
                    meth = k.split('>::')[-1]
                    self.alias.setdefault(t.group(1) + '::' + meth, []).append(k)

    def merge(self, other):
        for k, v in other.fns.items(): self.fns.setdefault(k, v)
        for k, v in other.consts.items(): self.consts.setdefault(k, v)
        for k, v in other.alias.items(): self.alias.setdefault(k, []).extend(x for x in v if x not in self.alias.get(k, []))
        self.sha = hashlib.sha1((self.sha + other.sha).encode()).hexdigest()[:12]
        return self

    def find(self, path):
        if path in self.fns: return self.fns[path]
        segs = path.split('::')
        if len(segs) >= 2:
            al = self.alias.get('::'.join(segs[-2:]))
            if al and len(al) == 1: return self.fns[al[0]]
            if al and len(al) > 1:
                # several impls (e.g. trait impls): prefer inherent impl = not a derive line
                raise KeyError('ambiguous method ' + path + ' ' + str(al))
        for k in range(len(segs)):
            suf = '::'.join(segs[k:])
            c = [n for n in self.fns if n == suf or n.endswith('::' + suf)]
            if len(c) == 1: return self.fns[c[0]]
            if len(c) > 1:
                ex = [n for n in c if n.split('::')[-len(segs[k:]):] == segs[k:]]
                if len(ex) == 1: return self.fns[ex[0]]
        return None

    def const(self, name):
        if name in self.consts: return self.consts[name]
        segs = name.split('::')
        for k in range(len(segs) - 1):
            suf = '::'.join(segs[k:])
            c = [x for x in self.consts if x == suf or x.endswith('::' + suf)]
            if len(c) == 1: return self.consts[c[0]]
        last = segs[-1]
        c = [k for k in self.consts if k.split('::')[-1] == last]
        if len(c) >= 1:
            vals = {self.consts[k] for k in c}
            if len(vals) == 1: return vals.pop()
        return None


# =============================================================================== values
class I:
    __slots__ = ('t', 'ty')
    def __init__(s, t, ty): s.t, s.ty = t, ty
    def __repr__(s): return f'I({T.smt(s.t)[:60]}:{s.ty})'
class B:
    __slots__ = ('t',)
    def __init__(s, t): s.t = t
    def __repr__(s): return f'B({T.smt(s.t)[:60]})'
class E:
    """enum value with a concrete variant on this path"""
    def __init__(s, var, fields=()): s.var, s.fields = var, list(fields)
    def __repr__(s): return f'E({s.var},{s.fields})'
class S:
    """struct / tuple: fields is dict (named) or list"""
    def __init__(s, fields): s.fields = fields
    def __repr__(s): return f'S({s.fields})'
    def get(s, f):
        if isinstance(s.fields, dict):
            if f in s.fields: return s.fields[f]
            return list(s.fields.values())[int(f)]
        return s.fields[int(f)]
    def set(s, f, v):
        if isinstance(s.fields, dict):
            d = dict(s.fields)
            if f not in d: f = list(d.keys())[int(f)]
            d[f] = v; return S(d)
        l = list(s.fields); l[int(f)] = v; return S(l)
class U256:
    __slots__ = ('t',)
    def __init__(s, t): s.t = t
    def __repr__(s): return f'U256({T.smt(s.t)[:60]})'
class Arr:
    def __init__(s, items): s.items = list(items)
    def __repr__(s): return f'Arr({s.items})'
class Ref:
    def __init__(s, frame, place): s.frame, s.place = frame, place
    def __repr__(s): return f'Ref({s.place})'
class Opaque:
    def __init__(s, tag, data=None): s.tag, s.data = tag, data
    def __repr__(s): return f'Opaque({s.tag})'
class Boxed:
    """Box<T>: `.0` (Unique) and `.0` (NonNull) projections stay on the box, deref yields the content"""
    def __init__(s, val): s.val = val
    def __repr__(s): return f'Boxed({s.val})'
class Panic:
    def __init__(s, msg): s.msg = msg
    def __repr__(s): return f'Panic({s.msg})'
class Unit:
    def __repr__(s): return 'Unit'
class Cut:
    """execution reached a cut point (loop header) of the top-level function: carries the frame"""
    def __init__(s, bb, frame): s.bb, s.frame = bb, frame
    def __repr__(s): return f'Cut({s.bb})'


VAR_ORDER = {'Continue': 0, 'Break': 1, 'Ok': 0, 'Err': 1, 'None': 0, 'Some': 1, 'Valid': 0, 'ExceedsMax': 1}
STRUCT_VARIANTS = set()


def _load_source_enums():
    """variant -> discriminant index for the crate's own enums, read from the current source (declaration order);
    a variant name declared with different indexes in two enums is left out (ambiguous)"""
    seen = {}
    root = os.path.join(REPO, 'programs/whirlpool/src')
    for dp, _, fs in os.walk(root):
        for f in fs:
            if not f.endswith('.rs'): continue
            try: txt = open(os.path.join(dp, f)).read()
            except Exception: continue
            for m in re.finditer(r'\benum\s+(\w+)\s*(?:<[^>{]*>)?\s*\{', txt):
                i = m.end(); depth = 1; j = i
                while j < len(txt) and depth:
                    if txt[j] == '{': depth += 1
                    elif txt[j] == '}': depth -= 1
                    j += 1
                body = txt[i:j - 1]
                body = re.sub(r'//[^\n]*', '', body)
                # split the enum body into top-level variants; remember which ones are struct-like (`Name { .. }`)
                parts, depth, cur = [], 0, ''
                for ch in body:
                    if ch in '{([': depth += 1
                    elif ch in '})]': depth -= 1
                    if ch == ',' and depth == 0:
                        parts.append(cur); cur = ''
                    else:
                        cur += ch
                parts.append(cur)
                idx = 0
                for part in parts:
                    part = re.sub(r'#\[(?:[^\[\]]|\[[^\[\]]*\])*\]', '', part, flags=re.S).strip()
                    if not part: continue
                    mm = re.match(r'(\w+)\s*(\{)?', part)
                    if not mm: continue
                    seen.setdefault(mm.group(1), set()).add(idx)
                    if mm.group(2): STRUCT_VARIANTS.add(mm.group(1))
                    idx += 1
    for k, v in seen.items():
        if len(v) == 1 and k not in VAR_ORDER: VAR_ORDER[k] = next(iter(v))


def const_int(v, ty): return I(C(v), ty)


# =============================================================================== executor
class Frame:
    def __init__(s, fn): s.fn, s.loc = fn, {}


class BoundExceeded(Exception):
    pass


class Engine:
    def __init__(self, mir, prune_ms=3000, max_steps=20000):
        self.mir = mir
        if not STRUCT_VARIANTS and 'AmountDeltaU64' not in VAR_ORDER:
            _load_source_enums(); VAR_ORDER.setdefault('AmountDeltaU64', -1)
        self.summaries = []      # list of (regex, handler(engine, callee, args, path) -> generator)
        self.models = default_models()
        self.prune_ms = prune_ms
        self.stats = {'calls': 0, 'forks': 0, 'prune_checks': 0, 'pruned': 0, 'prune_unknown': 0, 'paths': 0}
        self.divmemo = {}
        self.executed = set()
        self.max_steps = max_steps
        self.havoc_log = []
        self.merge = False       # state merging at if-diamonds (branches that rejoin at the immediate post-dominator)
        self.axioms = []         # global facts (e.g. monotonicity instances of an uninterpreted function) used when pruning
        self.cuts = set()        # (function name, block) cut points: reaching one ends the segment with a Cut value
        import z3
        self.z3 = z3
        self._zcache = {}

    # ---------------------------------------------------------------- z3 bridge (pruning only)
    def zexpr(self, t):
        z3 = self.z3
        k = t[0]
        key = id(t)
        c = self._zcache.get(key)
        if c is not None and c[0] is t: return c[1]
        if k == 'c': r = z3.IntVal(t[1])
        elif k == 'v': r = z3.Int(t[1])
        elif k == 'bv': r = z3.Bool(t[1])
        elif k == 'true': r = z3.BoolVal(True)
        elif k == 'false': r = z3.BoolVal(False)
        else:
            a = [self.zexpr(x) for x in t[1:]]
            if k == '+': r = z3.Sum(a)
            elif k == '-': r = a[0] - a[1]
            elif k == '*': r = a[0] * a[1]
            elif k == 'div': r = a[0] / a[1]
            elif k == 'mod': r = a[0] % a[1]
            elif k == 'ite': r = z3.If(a[0], a[1], a[2])
            elif k == '<=': r = a[0] <= a[1]
            elif k == '<': r = a[0] < a[1]
            elif k == '>=': r = a[0] >= a[1]
            elif k == '>': r = a[0] > a[1]
            elif k == '=': r = a[0] == a[1]
            elif k == 'distinct': r = a[0] != a[1]
            elif k == 'not': r = z3.Not(a[0])
            elif k == 'and': r = z3.And(a)
            elif k == 'or': r = z3.Or(a)
            else: raise ValueError(k)
        self._zcache[key] = (t, r)
        return r

    def feasible(self, pc):
        self.stats['prune_checks'] += 1
        z3 = self.z3
        s = z3.Solver(); s.set('timeout', self.prune_ms)
        for n in T.DECLS:
            lo, hi = T.RANGES[n]
            v = z3.Int(n)
            if lo is not None: s.add(v >= lo)
            if hi is not None: s.add(v <= hi)
        for c in pc: s.add(self.zexpr(c))
        for c in self.axioms: s.add(self.zexpr(c))
        r = s.check()
        if r == z3.unsat:
            self.stats['pruned'] += 1; return False
        if r == z3.unknown: self.stats['prune_unknown'] += 1
        return True

    # ---------------------------------------------------------------- paths
    def fork(self, path, cond):
        """returns new path or None if infeasible"""
        if cond == TRUE: return path
        if cond == FALSE: return None
        p = Path(path.pc + [cond], path.trace)
        self.stats['forks'] += 1
        if not self.feasible(p.pc): return None
        return p

    # ---------------------------------------------------------------- places
    def parse_place(self, s):
        s = s.strip()
        projs = []
        while True:
            if s.startswith('(') and s.endswith(')') and self._balanced_outer(s):
                inner = s[1:-1]
                if inner.startswith('*'):
                    projs.append(('deref',)); s = inner[1:].strip(); continue
                depth = 0; cut = None; kind = None
                for i, ch in enumerate(inner):
                    if ch in '([': depth += 1
                    elif ch in ')]': depth -= 1
                    elif depth == 0 and ch == '.' and re.match(r'\.\w+: ', inner[i:]):
                        cut, kind = i, 'field'   # keep the last one at depth 0
                    elif depth == 0 and inner.startswith(' as ', i) and kind is None:
                        cut, kind = i, 'variant'
                if kind == 'field':
                    f = re.match(r'\.(\w+): ', inner[cut:]).group(1)
                    projs.append(('field', f)); s = inner[:cut].strip(); continue
                if kind == 'variant':
                    projs.append(('variant', inner[cut + 4:].strip())); s = inner[:cut].strip(); continue
                raise ValueError('place? ' + s)
            m = re.match(r'^(.*)\[(_\d+|\d+ of \d+|const \d+_usize)\]$', s)
            if m and not s.startswith('('):
                projs.append(('index', m.group(2))); s = m.group(1).strip(); continue
            if m and self._balanced_outer_prefix(m.group(1)):
                projs.append(('index', m.group(2))); s = m.group(1).strip(); continue
            break
        if s.startswith('*'):
            projs.append(('deref',)); s = s[1:].strip()
            return self.parse_place(s)[0], self.parse_place(s)[1] + list(reversed(projs))
        m = re.match(r'^(_(?:ext)?\d+)$', s)
        if not m: raise ValueError('place?? ' + s)
        return m.group(1), list(reversed(projs))

    @staticmethod
    def _balanced_outer(s):
        d = 0
        for i, ch in enumerate(s):
            if ch == '(': d += 1
            elif ch == ')':
                d -= 1
                if d == 0 and i != len(s) - 1: return False
        return d == 0

    @staticmethod
    def _balanced_outer_prefix(s):
        return s.count('(') == s.count(')')

    def read_place(self, fr, pl):
        base, projs = self.parse_place(pl)
        if base not in fr.loc:
            raise KeyError(f'{fr.fn.name}: read of unset {base} in {pl}')
        return self._proj_read(fr, fr.loc[base], projs)

    def _proj_read(self, fr, v, projs):
        for p in projs:
            if isinstance(v, Opaque) and getattr(self, 'lenient', False):
                return Opaque(v.tag + '.' + str(p[-1]))
            if p[0] == 'deref':
                if isinstance(v, Ref):
                    # one level only: `*r` for r: &Box<T> is the Box, not its content (a Ref to a Ref is a re-borrow chain)
                    while isinstance(v, Ref): v = self.read_place(v.frame, v.place)
                    continue
                if type(v).__name__ == 'FRef': v = v.acct_ref.data; continue
                if isinstance(v, Boxed): v = v.val
            elif p[0] == 'field':
                while isinstance(v, Ref): v = self.read_place(v.frame, v.place)
                if type(v).__name__ == 'FRef': v = v.acct_ref.data
                if isinstance(v, Opaque) and getattr(self, 'lenient', False): return Opaque(v.tag + '.' + str(p[1]))
                if isinstance(v, Boxed): continue
                if type(v).__name__ == 'Acct': continue      # wrapper internals (info / account) of an Anchor account value
                if isinstance(v, E): v = v.fields[int(p[1])]
                elif isinstance(v, U256): raise NotImplementedError('field of U256')
                else: v = v.get(p[1])
            elif p[0] == 'variant':
                assert isinstance(v, E) and v.var == p[1], (v, p)
            elif p[0] == 'index':
                idx = p[1]
                while isinstance(v, Ref): v = self.read_place(v.frame, v.place)
                if type(v).__name__ == 'IdArr' and idx.startswith('_'):     # identity array (slot identity): the value at index i is i
                    v = I(fr.loc[idx].t, 'usize'); continue
                if idx.startswith('_'):
                    iv = fr.loc[idx]
                    assert T.is_c(iv.t), 'symbolic index'
                    i = iv.t[1]
                elif idx.startswith('const'):
                    i = int(re.match(r'const (\d+)_', idx).group(1))
                else:
                    i = int(idx.split(' of ')[0])
                while isinstance(v, Ref): v = self.read_place(v.frame, v.place)
                v = v.items[i]
        return v

    def write_place(self, fr, pl, val):
        base, projs = self.parse_place(pl)
        if not projs:
            fr.loc[base] = val; return
        cur0 = fr.loc.get(base)
        if getattr(self, 'lenient', False) and projs[0] == ('deref',) and type(cur0).__name__ == 'FRef':
            a = cur0.acct_ref
            a.data = self._proj_write(fr, a.data, projs[1:], val) if projs[1:] else val
            return
        if getattr(self, 'lenient', False) and isinstance(cur0, Boxed):
            # writes through a Box pointer (possibly after `.0.0` Unique/NonNull projections and a deref) update the shared cell in place
            rest = list(projs)
            while rest and (rest[0] == ('deref',) or (rest[0][0] == 'field' and rest[0][1] == '0' and isinstance(cur0.val, (Opaque, Boxed)) is False and False)):
                rest = rest[1:]
            if projs[0] == ('deref',):
                cur0.val = self._proj_write(fr, cur0.val, projs[1:], val) if projs[1:] else val
                return
        if projs[0] == ('deref',) and isinstance(fr.loc.get(base), Ref):
            r = fr.loc[base]
            rest = projs[1:]
            if not rest:
                self.write_place(r.frame, r.place, val)
            else:
                cur = self.read_place(r.frame, r.place)
                self.write_place(r.frame, r.place, self._proj_write(fr, cur, rest, val))
            return
        fr.loc[base] = self._proj_write(fr, fr.loc.get(base), projs, val)

    def _proj_write(self, fr, cur, projs, val):
        if not projs: return val
        p = projs[0]
        if getattr(self, 'lenient', False):
            if isinstance(cur, Opaque) or cur is None and p[0] != 'field':
                return self._proj_write(fr, cur, projs[1:], val)     # transparent wrappers (MaybeUninit, ManuallyDrop, ...) over nothing
            if p[0] == 'deref':
                if isinstance(cur, Boxed):
                    cur.val = self._proj_write(fr, cur.val, projs[1:], val); return cur
                if type(cur).__name__ == 'FRef':
                    cur.acct_ref.data = self._proj_write(fr, cur.acct_ref.data, projs[1:], val); return cur
                if isinstance(cur, Ref):
                    inner = self.read_place(cur.frame, cur.place)
                    self.write_place(cur.frame, cur.place, self._proj_write(fr, inner, projs[1:], val)); return cur
        if p[0] == 'field':
            if cur is None: cur = S({})
            if isinstance(cur, S):
                if isinstance(cur.fields, dict) and p[1] not in cur.fields and not p[1].isdigit():
                    d = dict(cur.fields); d[p[1]] = self._proj_write(fr, None, projs[1:], val); return S(d)
                if isinstance(cur.fields, dict) and p[1].isdigit() and int(p[1]) >= len(cur.fields):
                    d = dict(cur.fields); d[p[1]] = self._proj_write(fr, None, projs[1:], val); return S(d)
                return cur.set(p[1], self._proj_write(fr, cur.get(p[1]) if self._has(cur, p[1]) else None, projs[1:], val))
            if isinstance(cur, E):
                f = list(cur.fields); f[int(p[1])] = self._proj_write(fr, f[int(p[1])], projs[1:], val); return E(cur.var, f)
        if p[0] == 'index':
            idx = p[1]
            i = fr.loc[idx].t[1] if idx.startswith('_') else int(re.match(r'(?:const )?(\d+)', idx).group(1))
            items = list(cur.items); items[i] = self._proj_write(fr, items[i], projs[1:], val); return Arr(items)
        if p[0] == 'variant':
            return self._proj_write(fr, cur, projs[1:], val)
        raise NotImplementedError(f'write proj {p}')

    @staticmethod
    def _has(s, f):
        if isinstance(s.fields, dict): return f in s.fields or (f.isdigit() and int(f) < len(s.fields))
        return int(f) < len(s.fields)

    # ---------------------------------------------------------------- operands / rvalues
    def operand(self, fr, s):
        s = s.strip()
        if s.startswith('no_retag '): s = s[9:].strip()
        if s.startswith(('copy ', 'move ')): return self.read_place(fr, s[5:])
        if s.startswith('const '):
            c = s[6:].strip()
            m = re.match(r'^(-?\d+)_(\w+)$', c)
            if m: return const_int(int(m.group(1)), m.group(2))
            if c in ('true', 'false'): return B(TRUE if c == 'true' else FALSE)
            if c == '()': return Unit()
            m = re.match(r'^core::num::<impl (\w+)>::(MAX|MIN)$', c) or re.match(r'^([ui](?:8|16|32|64|128|size))::(MAX|MIN)$', c)
            if m:
                ty = m.group(1); k = BITS[ty]
                if ty.startswith('u'): v = (1 << k) - 1 if m.group(2) == 'MAX' else 0
                else: v = (1 << (k - 1)) - 1 if m.group(2) == 'MAX' else -(1 << (k - 1))
                return const_int(v, ty)
            cv = self.mir.const(c)
            if cv: return const_int(cv[0], cv[1])
            cb = getattr(self.mir, 'const_bodies', {})
            if c not in cb and 'promoted[' in c:        # promoted constants are printed under a shortened path: exact key, else the longest key that is a suffix
                cand = sorted((k for k in cb if c.endswith('::' + k)), key=len)
                if cand: c = cand[-1]
            if c in cb:
                if not hasattr(self, '_const_cache'): self._const_cache = {}
                if c not in self._const_cache:
                    f = Fn(c, '', cb[c][1])
                    outs = [r for _, r in self.run(f, [], Path(), _top=False) if not isinstance(r, Panic)]
                    if len(outs) != 1: raise NotImplementedError('computed constant ' + c)
                    self._const_cache[c] = outs[0]
                return self._const_cache[c]
            # enum unit variant constant e.g. `const ErrorCode::Foo`
            m = re.match(r'^([\w:<>]+)::(\w+)$', c)
            if m and m.group(2)[0].isupper(): return E(m.group(2))
            return Opaque('const', c)
        raise ValueError('operand? ' + s)

    CMP = {'Eq': '=', 'Lt': '<', 'Le': '<=', 'Gt': '>', 'Ge': '>=', 'Ne': 'distinct'}

    def divrem(self, a, b, path_side):
        """fresh q,r with the division lemma (memoised per operand pair)"""
        if T.is_c(b) and b[1] > 0:
            return T.div(a, b), T.mod(a, b)
        key = (T.smt(a), T.smt(b))
        if key in self.divmemo:
            q, r, lemma = self.divmemo[key]
            path_side.append(lemma)
            return q, r
        alo, ahi = T.rng(a); blo, bhi = T.rng(b)
        q = T.fresh('q', 0, ahi)
        r = T.fresh('r', 0, None if bhi is None else bhi - 1)
        lemma = T.implies(T.cmp('>', b, C(0)), T.and_(T.cmp('<', r, b), T.cmp('=', a, T.add(T.mul(q, b), r))))
        self.divmemo[key] = (q, r, lemma)
        path_side.append(lemma)
        return q, r

    def rvalue(self, fr, rv, side):
        rv = rv.strip()
        m = re.match(r'^(\w+)\((.*)\)$', rv, re.S)
        if m and m.group(1) in ('Add', 'Sub', 'Mul', 'Div', 'Rem', 'Eq', 'Lt', 'Le', 'Gt', 'Ge', 'Ne', 'BitAnd', 'BitOr',
                                'BitXor', 'Shl', 'Shr', 'AddWithOverflow', 'SubWithOverflow', 'MulWithOverflow',
                                'AddUnchecked', 'SubUnchecked', 'MulUnchecked', 'ShlUnchecked', 'ShrUnchecked'):
            a, b = [self.operand(fr, x) for x in split_top(m.group(2))]
            op = m.group(1).replace('Unchecked', '')
            if op in self.CMP:
                if isinstance(a, B):
                    e = T.beq(a.t, b.t)
                    return B(e if op == 'Eq' else T.not_(e))
                if isinstance(a, E) and isinstance(b, E):
                    return B(TRUE if (a.var == b.var) == (op == 'Eq') else FALSE)
                return B(T.cmp(self.CMP[op], a.t, b.t))
            if isinstance(a, B) and op in ('BitAnd', 'BitOr', 'BitXor'):
                if op == 'BitAnd': return B(T.and_(a.t, b.t))
                if op == 'BitOr': return B(T.or_(a.t, b.t))
                return B(T.not_(T.beq(a.t, b.t)))
            ty = a.ty; k = BITS[ty]; sg = ty.startswith('i')
            if op in ('Add', 'Sub', 'Mul'):
                raw = {'Add': T.add, 'Sub': T.sub, 'Mul': T.mul}[op](a.t, b.t)
                w = T.wrap(raw, k, sg)
                if w is not raw and w != raw:
                    lo, hi = (-(1 << (k - 1)), (1 << (k - 1)) - 1) if sg else (0, (1 << k) - 1)
                    side.append(('event', 'nowrap', f'{fr.fn.name}: {op} {ty}', T.and_(T.cmp('>=', raw, C(lo)), T.cmp('<=', raw, C(hi)))))
                return I(w, ty)
            if op in ('AddWithOverflow', 'SubWithOverflow', 'MulWithOverflow'):
                raw = {'Add': T.add, 'Sub': T.sub, 'Mul': T.mul}[op[:3]](a.t, b.t)
                lo, hi = (-(1 << (k - 1)), (1 << (k - 1)) - 1) if sg else (0, (1 << k) - 1)
                ov = T.or_(T.cmp('<', raw, C(lo)), T.cmp('>', raw, C(hi)))
                return S([I(T.wrap(raw, k, sg), ty), B(ov)])
            if op in ('Div', 'Rem'):
                if sg:
                    # Rust signed division truncates toward zero: q = sgn(a)*sgn(b)*(|a| div |b|), r = a - q*b
                    absa = T.ite(T.cmp('<', a.t, C(0)), T.sub(C(0), a.t), a.t)
                    absb = T.ite(T.cmp('<', b.t, C(0)), T.sub(C(0), b.t), b.t)
                    qa, ra = self.divrem(absa, absb, side)
                    neg = T.not_(T.beq(T.cmp('<', a.t, C(0)), T.cmp('<', b.t, C(0))))
                    q = T.ite(neg, T.sub(C(0), qa), qa)
                    if op == 'Div': return I(q, ty)
                    return I(T.ite(T.cmp('<', a.t, C(0)), T.sub(C(0), ra), ra), ty)
                q, r = self.divrem(a.t, b.t, side)
                return I(q if op == 'Div' else r, ty)
            if op == 'Shr':
                if not T.is_c(b.t): raise NotImplementedError('symbolic shift')
                if sg: raise NotImplementedError('signed shr')
                return I(T.div(a.t, P2(b.t[1])), ty)
            if op == 'Shl':
                if not T.is_c(b.t): raise NotImplementedError('symbolic shift')
                return I(T.wrap(T.mul(a.t, P2(b.t[1])), k, sg), ty)
            if op == 'BitAnd':
                for x, y in ((a, b), (b, a)):
                    if T.is_c(y.t) and y.t[1] > 0 and (y.t[1] & (y.t[1] - 1)) == 0:
                        bit = T.bit_of(x.t, y.t[1].bit_length() - 1)
                        if bit is not None: return I(T.ite(bit, C(y.t[1]), C(0)), ty)
                for x, y in ((a, b), (b, a)):
                    if T.is_c(y.t) and (y.t[1] & (y.t[1] + 1)) == 0:
                        return I(T.mod(x.t, C(y.t[1] + 1)), ty)
                raise NotImplementedError('BitAnd general')
            raise NotImplementedError(op)
        m = re.match(r'^Not\((.*)\)$', rv)
        if m:
            a = self.operand(fr, m.group(1))
            if isinstance(a, B): return B(T.not_(a.t))
            raise NotImplementedError('Not int')
        m = re.match(r'^Neg\((.*)\)$', rv)
        if m:
            a = self.operand(fr, m.group(1))
            return I(T.wrap(T.sub(C(0), a.t), BITS[a.ty], True), a.ty)
        m = re.match(r'^(.*) as (\w+) \(IntToInt\)$', rv)
        if m:
            a = self.operand(fr, m.group(1)); ty = m.group(2)
            if isinstance(a, B): return I(T.ite(a.t, C(1), C(0)), ty)
            return I(T.wrap(a.t, BITS[ty], ty.startswith('i')), ty)
        m = re.match(r'^(.*) as (.*) \((\w+)(?:\(.*\))?\)$', rv)
        if m:   # other casts (pointer coercions, Transmute...) keep the value
            return self.operand(fr, m.group(1))
        if rv.startswith('&'):
            pl = re.sub(r'^&(raw )?(mut |const )?', '', rv).strip()
            return Ref(fr, pl)
        m = re.match(r'^discriminant\((.*)\)$', rv)
        if m: return ('disc', self.read_place(fr, m.group(1)))
        m = re.match(r'^Len\((.*)\)$', rv)
        if m:
            v = self.read_place(fr, m.group(1))
            while isinstance(v, Ref): v = self.read_place(v.frame, v.place)
            return const_int(len(v.items), 'usize')
        m = re.match(r'^CopyForDeref\((.*)\)$', rv)
        if m: return self.read_place(fr, m.group(1))
        if rv.startswith(('copy ', 'move ', 'const ', 'no_retag ')): return self.operand(fr, rv)
        if rv.startswith('[') and rv.endswith(']'):
            inner = rv[1:-1]
            m = re.match(r'^(.*); (\d+)$', inner)
            if m:
                v = self.operand(fr, m.group(1)); return Arr([v] * int(m.group(2)))
            return Arr([self.operand(fr, x) for x in split_top(inner)])
        if rv.startswith('(') and rv.endswith(')'):
            return S([self.operand(fr, x) for x in split_top(rv[1:-1])])
        m = re.match(r'^([\w:<>, \[\];&\']+?) \{ (.*) \}$', rv, re.S)
        if m:
            d = {}
            for kv in split_top(m.group(2)):
                k, v = kv.split(':', 1); d[k.strip()] = self.operand(fr, v)
            nm = m.group(1).strip()
            if nm.endswith('U256Muldiv') and 'items' in d:
                raise NotImplementedError('raw U256Muldiv aggregate')
            last = re.sub(r'<.*>$', '', nm).split('::')[-1]
            if (last in STRUCT_VARIANTS or last in ('Static', 'Adaptive')) and '::' in nm:      # enum struct-variant: fields are addressed by index after `as Variant`
                return E(last, list(d.values()))
            return S(d)
        m = re.match(r'^(.*)::(\w+)(?:\((.*)\))?$', rv, re.S)
        if m:
            args = [self.operand(fr, x) for x in split_top(m.group(3))] if m.group(3) else []
            return E(m.group(2), args)
        if re.match(r'^[A-Z]\w*$', rv):        # bare unit variant of an imported enum (e.g. `ConstraintHasOne`)
            return E(rv)
        raise NotImplementedError('rvalue ' + rv)

    # ---------------------------------------------------------------- running
    def run(self, fn, args, path, _top=True):
        """generator of (path, retval | Panic). For a top-level call, arguments that are references into a frame outside the engine
        (`&mut self` of a method under test) are localised: the referent is copied into the callee frame (so that forked paths get their own copy)
        and its final value on each returned path is published in `self.last_ext[i]` (i = argument position) right before the path is yielded"""
        if isinstance(fn, str):
            f = self.mir.find(fn)
            if f is None: raise KeyError('no MIR for ' + fn)
            fn = f
        self.stats['calls'] += 1
        self.executed.add(fn.name)
        fr = Frame(fn)
        if _top:
            fr.top = True
            args = list(args)
            for i, a in enumerate(args):
                if isinstance(a, Ref):
                    fr.loc[f'_ext{i}'] = self.read_place(a.frame, a.place)
                    args[i] = Ref(fr, f'_ext{i}')
        for i, a in enumerate(args): fr.loc[f'_{i + 1}'] = a
        yield from self.run_block(fr, 'bb0', path, 0)

    def run_from(self, fr, bb, path):
        """continue a frame at block `bb` (segment execution between cut points)"""
        yield from self.run_block(fr, bb, path, 0, entry=True)

    def clone(self, fr):
        f2 = Frame(fr.fn); f2.loc = dict(fr.loc)
        if getattr(fr, 'top', False): f2.top = True
        memo = {}
        for k, v in f2.loc.items():
            if isinstance(v, Ref) and v.frame is fr: f2.loc[k] = Ref(f2, v.place)
            elif getattr(self, 'lenient', False): f2.loc[k] = self._copy_cells(v, memo, fr, f2)
        return f2

    def _copy_cells(self, v, memo, fr, f2):
        """mutable cells (Box contents, account data) are copied per path so that in-place writes do not leak between forks;
        sharing between the copies inside one frame is preserved"""
        k = id(v)
        if k in memo: return memo[k]
        r = v
        if isinstance(v, Boxed):
            r = Boxed(None); memo[k] = r
            r.val = self._copy_cells(v.val, memo, fr, f2)
            return r
        if type(v).__name__ == 'Acct':
            r = type(v)(v.name, v.key, None); memo[k] = r
            r.data = self._copy_cells(v.data, memo, fr, f2)
            return r
        if type(v).__name__ == 'FRef':
            r = type(v)(self._copy_cells(v.acct_ref, memo, fr, f2))
        elif isinstance(v, Ref) and v.frame is fr:
            r = Ref(f2, v.place)
        elif isinstance(v, S):
            if isinstance(v.fields, dict):
                d = {a: self._copy_cells(b, memo, fr, f2) for a, b in v.fields.items()}
                if any(d[a] is not v.fields[a] for a in d): r = S(d)
            else:
                l = [self._copy_cells(b, memo, fr, f2) for b in v.fields]
                if any(x is not y for x, y in zip(l, v.fields)): r = S(l)
        elif isinstance(v, E):
            l = [self._copy_cells(b, memo, fr, f2) for b in v.fields]
            if any(x is not y for x, y in zip(l, v.fields)): r = E(v.var, l)
        elif isinstance(v, Arr):
            l = [self._copy_cells(b, memo, fr, f2) for b in v.items]
            if any(x is not y for x, y in zip(l, v.items)): r = Arr(l)
        memo[k] = r
        return r

    def run_block(self, fr, bb, path, steps, entry=False):
        while True:
            steps += 1
            if steps > self.max_steps: raise BoundExceeded(fr.fn.name)
            if self.cuts and not entry and (fr.fn.name, bb) in self.cuts:
                self.stats['paths'] += 1
                yield (path, Cut(bb, fr)); return
            entry = False
            jumped = False
            for st in fr.fn.blocks[bb]:
                st = st.rstrip(';')
                if st.startswith(('StorageLive', 'StorageDead', 'nop', 'FakeRead', 'PlaceMention', 'AscribeUserType',
                                  'Retag', 'Coverage', 'ConstEvalCounter')):
                    continue
                if st == 'return':
                    self.stats['paths'] += 1
                    if getattr(fr, 'top', False):
                        self.last_ext = {int(k[4:]): v for k, v in fr.loc.items() if k.startswith('_ext')}
                        self.last_locals = fr.loc      # final locals of the top-level frame on this path (read-only use by obligations, e.g. a loop accumulator)
                    yield (path, fr.loc.get('_0', Unit())); return
                if st == 'unreachable': return
                if st.startswith('resume') or st.startswith('abort'): return
                m = re.match(r'^goto -> (bb\d+)$', st)
                if m:
                    bb = m.group(1); jumped = True; break
                m = re.match(r'^drop\(.*\) -> \[return: (bb\d+).*\]$', st)
                if m:
                    bb = m.group(1); jumped = True; break
                m = re.match(r'^switchInt\((.*)\) -> \[(.*)\]$', st)
                if m:
                    v = self.operand(fr, m.group(1))
                    targets = [(t.split(':')[0].strip(), t.split(':')[1].strip()) for t in split_top(m.group(2))]
                    if isinstance(v, tuple) and v[0] == 'disc':
                        val = v[1]
                        while isinstance(val, Ref): val = self.read_place(val.frame, val.place)
                        if isinstance(val, E):
                            d = VAR_ORDER.get(val.var)
                            if d is None: d = self.variant_index(val.var)
                            tgt = dict(targets).get(str(d), dict(targets).get('otherwise'))
                            bb = tgt; jumped = True; break
                        if isinstance(val, I):
                            v = val
                        else:
                            raise NotImplementedError(f'discriminant of {val}')
                    if isinstance(v, B):
                        tf = dict(targets)
                        ft, tt = tf['0'], tf['otherwise']
                        if v.t == TRUE: bb = tt; jumped = True; break
                        if v.t == FALSE: bb = ft; jumped = True; break
                        p1 = self.fork(path, v.t)
                        p0 = self.fork(path, T.not_(v.t))
                        if p1 is not None and p0 is not None and self.merge:
                            mg = self.try_merge(fr, bb, v.t, tt, ft, p1, p0, path)
                            if mg is not None:
                                fr, path, bb = mg; jumped = True; break
                        if p1 is not None and p0 is not None:
                            yield from self.run_block(self.clone(fr), tt, p1, steps)
                            path = p0; bb = ft; jumped = True; break
                        if p1 is not None: path = p1; bb = tt; jumped = True; break
                        if p0 is not None: path = p0; bb = ft; jumped = True; break
                        return
                    if isinstance(v, I):
                        if T.is_c(v.t):
                            tgt = dict(targets).get(str(v.t[1]), dict(targets).get('otherwise'))
                            bb = tgt; jumped = True; break
                        rest = []
                        live = []
                        for kx, tg in targets:
                            if kx == 'otherwise':
                                live.append((T.and_(*rest) if rest else TRUE, tg))
                            else:
                                live.append((T.cmp('=', v.t, C(int(kx))), tg)); rest.append(T.not_(T.cmp('=', v.t, C(int(kx)))))
                        for cnd, tg in live:
                            p = self.fork(path, cnd)
                            if p is not None:
                                yield from self.run_block(self.clone(fr), tg, p, steps)
                        return
                    raise NotImplementedError('switch on ' + repr(v))
                m = re.match(r'^assert\((!?)(.*?), "(.*?)".*\) -> \[success: (bb\d+).*\]$', st)
                if m:
                    v = self.operand(fr, m.group(2))
                    c = T.not_(v.t) if m.group(1) else v.t
                    pbad = self.fork(path, T.not_(c))
                    if pbad is not None:
                        self.stats['paths'] += 1
                        yield (pbad, Panic(m.group(3)))
                    pok = self.fork(path, c)
                    if pok is None: return
                    path = pok; bb = m.group(4); jumped = True; break
                cm = self.split_call(st)
                if cm and not re.match(r'^(Add|Sub|Mul|Div|Rem|Eq|Lt|Le|Gt|Ge|Ne|BitAnd|BitOr|BitXor|Shl|Shr|Not|Neg|Len|discriminant|CopyForDeref|\w+WithOverflow|\w+Unchecked)$', cm[1]) \
                        and not cm[1].startswith(('copy ', 'move ', 'const ', '&')):
                    m = cm
                    dest, callee, argstr, nxt = m
                    cargs = [self.operand(fr, a) for a in split_top(argstr)]
                    if getattr(self, 'lenient', False):
                        from . import handler as H
                        if any(rx.search(callee) for rx in self.record_rx):
                            outs = list(H.call_fallback(self, fr, dest, callee, cargs, path))
                        else:
                            try:
                                outs = list(self.call(callee, cargs, path))
                            except NotImplementedError as ex:
                                if not str(ex).startswith('call '): raise
                                outs = list(H.call_fallback(self, fr, dest, callee, cargs, path))
                    else:
                        outs = list(self.call(callee, cargs, path))
                    if not outs: return
                    for i, (p2, rv) in enumerate(outs):
                        if isinstance(rv, Panic):
                            yield (p2, rv); continue
                        fr2 = fr if i == len(outs) - 1 else self.clone(fr)
                        self.write_place(fr2, dest, rv)
                        yield from self.run_block(fr2, nxt, p2, steps)
                    return
                m = re.match(r'^(.*?) = (.*?)\((.*)\) -> (?:unwind .*|\[unwind.*\])$', st, re.S)
                if m and ('panic' in m.group(2) or 'unwrap_failed' in m.group(2) or 'expect_failed' in m.group(2) or 'begin_panic' in m.group(2)):
                    self.stats['paths'] += 1
                    yield (path, Panic(m.group(2))); return
                m = re.match(r'^(.*?) = (.*)$', st, re.S)
                if m:
                    side = []
                    try:
                        v = self.rvalue(fr, m.group(2), side)
                    except (AttributeError, AssertionError, KeyError, IndexError, TypeError) as ex:
                        raise NotImplementedError(f'{fr.fn.name} {bb}: `{st}`: {type(ex).__name__}: {ex}')
                    if side:
                        path = Path(path.pc + [x for x in side if x[0] != 'event'], path.trace + [x for x in side if x[0] == 'event'])
                    self.write_place(fr, m.group(1).strip(), v)
                    continue
                raise NotImplementedError('stmt ' + st)
            if not jumped:
                raise NotImplementedError('fell off block ' + bb + ' in ' + fr.fn.name)

    def try_merge(self, fr, bb, cond, tt, ft, p1, p0, path):
        """run both branches of an if-diamond up to the immediate post-dominator and merge the two frames with ite"""
        j = fn_ipdom(fr.fn).get(bb)
        if j is None: return None
        saved = self.cuts
        self.cuts = set(saved) | {(fr.fn.name, j)}
        try:
            outs = []
            for tgt, p in ((tt, p1), (ft, p0)):
                if tgt == j:
                    outs.append([(p, Cut(j, self.clone(fr)))]); continue
                f2 = self.clone(fr)
                outs.append(list(self.run_block(f2, tgt, p, 0, entry=True)))
        except NotImplementedError:
            raise
        finally:
            self.cuts = saved
        for o in outs:
            if len(o) != 1 or not isinstance(o[0][1], Cut) or o[0][1].bb != j: return None
        (q1, c1), (q0, c0) = outs[0][0], outs[1][0]
        n = len(path.pc)
        extra = [T.implies(cond, x) for x in q1.pc[n + 1:]] + [T.implies(T.not_(cond), x) for x in q0.pc[n + 1:]]
        tr = list(path.trace)
        for q, g in ((q1, cond), (q0, T.not_(cond))):
            for ev in q.trace[len(path.trace):]:
                if ev[1] not in ('nowrap', 'nopanic'): return None
                tr.append((ev[0], ev[1], ev[2], T.implies(g, ev[3])))
        f1, f0 = c1.frame, c0.frame
        out = Frame(fr.fn)
        for k in set(f1.loc) | set(f0.loc):
            a, b = f1.loc.get(k), f0.loc.get(k)
            if a is None or b is None: continue      # dead temporaries of one branch
            m = self.merge_val(cond, a, b, f1, f0, out)
            if m is None: return None
            out.loc[k] = m
        return out, Path(path.pc + extra, tr), j

    def merge_val(self, c, a, b, fa, fb, fout):
        if a is b: return a
        if isinstance(a, I) and isinstance(b, I) and a.ty == b.ty: return I(T.ite(c, a.t, b.t), a.ty)
        if isinstance(a, B) and isinstance(b, B):
            if a.t == b.t: return a
            return B(T.or_(T.and_(c, a.t), T.and_(T.not_(c), b.t)))
        if isinstance(a, U256) and isinstance(b, U256): return U256(T.ite(c, a.t, b.t))
        if isinstance(a, Ref) and isinstance(b, Ref) and a.place == b.place:
            if a.frame is fa and b.frame is fb: return Ref(fout, a.place)
            if a.frame is b.frame: return a
            return None
        if isinstance(a, E) and isinstance(b, E) and a.var == b.var and len(a.fields) == len(b.fields):
            fs = [self.merge_val(c, x, y, fa, fb, fout) for x, y in zip(a.fields, b.fields)]
            return None if any(f is None for f in fs) else E(a.var, fs)
        if isinstance(a, S) and isinstance(b, S):
            if isinstance(a.fields, dict) and isinstance(b.fields, dict) and list(a.fields) == list(b.fields):
                d = {k: self.merge_val(c, a.fields[k], b.fields[k], fa, fb, fout) for k in a.fields}
                return None if any(v is None for v in d.values()) else S(d)
            if isinstance(a.fields, list) and isinstance(b.fields, list) and len(a.fields) == len(b.fields):
                l = [self.merge_val(c, x, y, fa, fb, fout) for x, y in zip(a.fields, b.fields)]
                return None if any(v is None for v in l) else S(l)
            return None
        if isinstance(a, Arr) and isinstance(b, Arr) and len(a.items) == len(b.items):
            l = [self.merge_val(c, x, y, fa, fb, fout) for x, y in zip(a.items, b.items)]
            return None if any(v is None for v in l) else Arr(l)
        if isinstance(a, Opaque) and isinstance(b, Opaque) and a.tag == b.tag: return a
        if isinstance(a, Unit) and isinstance(b, Unit): return a
        if isinstance(a, Boxed) and isinstance(b, Boxed):
            v = self.merge_val(c, a.val, b.val, fa, fb, fout)
            return None if v is None else Boxed(v)
        return None

    @staticmethod
    def split_call(st):
        """`dest = callee(args) -> [return: bbN, ...]`  ->  (dest, callee, args, bbN); the argument list is the
        parenthesis group that closes right before ` -> [` (callee paths may contain parentheses themselves)"""
        m = re.search(r'\) -> \[return: (bb\d+).*\]$', st, re.S)
        if not m or ' = ' not in st: return None
        close = m.start()
        depth = 0; i = close
        while i >= 0:
            ch = st[i]
            if ch == ')': depth += 1
            elif ch == '(':
                depth -= 1
                if depth == 0: break
            i -= 1
        if i < 0: return None
        head = st[:i]
        eq = head.find(' = ')
        if eq < 0: return None
        return head[:eq].strip(), head[eq + 3:].strip(), st[i + 1:close], m.group(1)

    def variant_index(self, name):
        raise NotImplementedError('variant order of ' + name)

    # ---------------------------------------------------------------- calls
    def deref(self, v):
        while isinstance(v, Ref): v = self.read_place(v.frame, v.place)
        return v

    def call(self, callee, args, path):
        short = re.sub(r'<[^<>]*>', '', callee)
        short = re.sub(r'<[^<>]*>', '', short)
        for rx, h in self.summaries:
            if rx.search(callee):
                yield from h(self, callee, args, path); return
        for rx, h in self.models:
            if rx.search(callee):
                yield from h(self, callee, args, path); return
        fn = self.mir.find(short) or self.mir.find(callee)
        if fn is None:
            raise NotImplementedError('call ' + callee)
        yield from self.run(fn, args, path, _top=False)


class Path:
    def __init__(s, pc=None, trace=None):
        s.pc = list(pc or []); s.trace = list(trace or [])
    def with_trace(s, ev):
        return Path(s.pc, s.trace + [ev])


# =============================================================================== models of core + 256-bit kernels
def default_models():
    M = []
    def reg(rx):
        def d(f): M.append((re.compile(rx), f)); return f
        return d

    @reg(r'core::num::<impl u\d+>::checked_mul$|<impl u\d+>::checked_mul$')
    def _(e, c, a, p):
        x, y = a; k = BITS[x.ty]; pr = T.mul(x.t, y.t)
        p1 = e.fork(p, T.cmp('<', pr, P2(k)))
        if p1: yield p1, E('Some', [I(pr, x.ty)])
        p2 = e.fork(p, T.cmp('>=', pr, P2(k)))
        if p2: yield p2, E('None')

    @reg(r'<impl [ui]\d+>::checked_add$')
    def _(e, c, a, p):
        x, y = a; k = BITS[x.ty]; s = T.add(x.t, y.t)
        hi = (1 << k) - 1 if x.ty.startswith('u') else (1 << (k - 1)) - 1
        lo = 0 if x.ty.startswith('u') else -(1 << (k - 1))
        ok = T.and_(T.cmp('<=', s, C(hi)), T.cmp('>=', s, C(lo)))
        p1 = e.fork(p, ok)
        if p1: yield p1, E('Some', [I(s, x.ty)])
        p2 = e.fork(p, T.not_(ok))
        if p2: yield p2, E('None')

    @reg(r'<impl [ui]\d+>::checked_sub$')
    def _(e, c, a, p):
        x, y = a; k = BITS[x.ty]; s = T.sub(x.t, y.t)
        hi = (1 << k) - 1 if x.ty.startswith('u') else (1 << (k - 1)) - 1
        lo = 0 if x.ty.startswith('u') else -(1 << (k - 1))
        ok = T.and_(T.cmp('<=', s, C(hi)), T.cmp('>=', s, C(lo)))
        p1 = e.fork(p, ok)
        if p1: yield p1, E('Some', [I(s, x.ty)])
        p2 = e.fork(p, T.not_(ok))
        if p2: yield p2, E('None')

    @reg(r'<impl u\d+>::wrapping_(add|sub|mul)$')
    def _(e, c, a, p):
        x, y = a; k = BITS[x.ty]
        op = re.search(r'wrapping_(\w+)$', c).group(1)
        raw = {'add': T.add, 'sub': T.sub, 'mul': T.mul}[op](x.t, y.t)
        yield p, I(T.wrap(raw, k), x.ty)

    @reg(r'RangeInclusive::<\w+>::new$')
    def _range_new(e, callee, args, path):
        yield path, S({'start': args[0], 'end': args[1]})

    @reg(r'RangeInclusive::<\w+>::contains::<\w+>$')
    def _range_contains(e, callee, args, path):
        r, x = e.deref(args[0]), e.deref(args[1])
        yield path, B(T.and_(T.cmp('<=', r.get('start').t, x.t), T.cmp('<=', x.t, r.get('end').t)))

    @reg(r'<impl i\d+>::unsigned_abs$')
    def _(e, c, a, p):
        x, = a
        yield p, I(T.ite(T.cmp('<', x.t, C(0)), T.sub(C(0), x.t), x.t), 'u' + x.ty[1:])

    def closure_fn(e, callee, k=-1):
        cl = re.findall(r'\{closure@[^}]*\}', callee)
        if not cl: raise NotImplementedError('closure in ' + callee)
        cands = [f for n, f in e.mir.fns.items() if f.sig.startswith('_1: ' + cl[k])]
        if not cands: raise NotImplementedError('closure body for ' + cl[k])
        return cands[0]

    @reg(r'Result::<.*>::map::<')
    def _(e, c, a, p):
        r = a[0]
        if r.var != 'Ok': yield p, r; return
        for p2, rv in e.run(closure_fn(e, c), [Opaque('closure'), r.fields[0]], p, _top=False):
            yield p2, (rv if isinstance(rv, Panic) else E('Ok', [rv]))

    @reg(r'Result::<.*>::map_err::<')
    def _(e, c, a, p):
        r = a[0]
        if r.var == 'Ok': yield p, r; return
        for p2, rv in e.run(closure_fn(e, c), [Opaque('closure'), r.fields[0]], p, _top=False):
            yield p2, (rv if isinstance(rv, Panic) else E('Err', [rv]))

    @reg(r'Arguments::<.*>::(from_str|new_const|new_v1)')
    def _(e, c, a, p):
        yield p, Opaque('fmt::Arguments')

    @reg(r'<impl i\d+>::signum$')
    def _(e, c, a, p):
        x, = a
        yield p, I(T.ite(T.cmp('<', x.t, C(0)), C(-1), T.ite(T.cmp('=', x.t, C(0)), C(0), C(1))), x.ty)

    @reg(r'<impl i\d+>::abs$')
    def _(e, c, a, p):
        x, = a
        t = x.t
        if t[0] == '-' and T.is_c(t[1]) and t[1][1] == 0 and T.rng(t[2])[0] is not None and T.rng(t[2])[0] >= 0:
            yield p, I(t[2], x.ty); return       # |0 - m| = m for m >= 0
        yield p, I(T.ite(T.cmp('<', x.t, C(0)), T.sub(C(0), x.t), x.t), x.ty)

    @reg(r'U256Muldiv::shift_right$')
    def _(e, c, a, p):
        x = e.deref(a[0]); n = a[1]
        if not T.is_c(n.t): raise NotImplementedError('symbolic U256 shift')
        yield p, U256(T.div(x.t, P2(n.t[1])))

    @reg(r'::ok_or::')
    def _(e, c, a, p):
        o, er = a
        yield p, (E('Ok', o.fields) if o.var == 'Some' else E('Err', [er]))

    @reg(r'Option::<.*>::unwrap_or$|Result::<.*>::unwrap_or$')
    def _(e, c, a, p):
        o, d = a
        yield p, (o.fields[0] if o.var in ('Some', 'Ok') else d)

    @reg(r'Option::<.*>::unwrap$|Result::<.*>::unwrap$')
    def _(e, c, a, p):
        o, = a
        if o.var in ('Some', 'Ok'): yield p, o.fields[0]
        else: yield p, Panic('unwrap on ' + o.var)

    @reg(r'Option::<.*>::is_some$')
    def _(e, c, a, p):
        o = e.deref(a[0]); yield p, B(TRUE if o.var == 'Some' else FALSE)

    @reg(r'Option::<.*>::is_none$')
    def _(e, c, a, p):
        o = e.deref(a[0]); yield p, B(TRUE if o.var == 'None' else FALSE)

    @reg(r'Result::<.*>::is_ok$')
    def _(e, c, a, p):
        o = e.deref(a[0]); yield p, B(TRUE if o.var == 'Ok' else FALSE)

    @reg(r'Result::<.*>::is_err$')
    def _(e, c, a, p):
        o = e.deref(a[0]); yield p, B(TRUE if o.var == 'Err' else FALSE)

    @reg(r' as Try>::branch$')
    def _(e, c, a, p):
        r, = a
        yield p, (E('Continue', r.fields) if r.var in ('Ok', 'Some') else E('Break', [E(r.var, r.fields)]))

    @reg(r'FromResidual')
    def _(e, c, a, p):
        r, = a
        if r.var == 'Err':
            yield p, E('Err', [convert_err(r.fields[0])])
        else:
            yield p, E('None')

    @reg(r'as TryInto<u64>>::try_into$|<u64 as TryFrom<u128>>::try_from$')
    def _(e, c, a, p):
        x, = a
        p1 = e.fork(p, T.cmp('<', x.t, P2(64)))
        if p1: yield p1, E('Ok', [I(x.t, 'u64')])
        p2 = e.fork(p, T.cmp('>=', x.t, P2(64)))
        if p2: yield p2, E('Err', [E('TryFromIntError')])

    @reg(r'as From<TryFromIntError>>::from$|as From<std::num::TryFromIntError>>::from$')
    def _(e, c, a, p):
        yield p, E('NumberCastError')

    @reg(r'as From<u\d+>>::from$')
    def _(e, c, a, p):
        x, = a
        m = re.search(r'<(\w+) as From<(\w+)>>::from$', c)
        if m and m.group(1) in BITS: yield p, I(x.t, m.group(1))
        elif 'U256Muldiv' in c: yield p, U256(x.t)
        else: raise NotImplementedError(c)

    @reg(r'as Into<.*>>::into$')
    def _(e, c, a, p):
        x, = a
        m = re.search(r'<(\w+) as Into<(.*)>>::into$', c)
        tgt = m.group(2) if m else ''
        if tgt in BITS and isinstance(x, I): yield p, I(x.t, tgt)
        elif 'U256Muldiv' in tgt: yield p, U256(x.t)
        elif isinstance(x, E): yield p, convert_err(x)
        else: raise NotImplementedError(c)

    @reg(r'as From<.*Pod(U16|U64|I64)>>::from$')
    def _(e, c, a, p):
        x = e.deref(a[0])
        m = re.search(r'<(\w+) as From', c)
        yield p, I(x.t, m.group(1))

    @reg(r'<impl u\d+>::checked_div$')
    def _(e, c, a, p):
        x, y = a
        pz = e.fork(p, T.cmp('=', y.t, C(0)))
        if pz: yield pz, E('None')
        pn = e.fork(p, T.cmp('>', y.t, C(0)))
        if pn:
            side = []
            q, r = e.divrem(x.t, y.t, side)
            yield Path(pn.pc + side, pn.trace), E('Some', [I(q, x.ty)])

    @reg(r'Result::<.*>::ok$')
    def _(e, c, a, p):
        o, = a
        yield p, (E('Some', o.fields) if o.var == 'Ok' else E('None'))

    @reg(r' as Ord>::min$|std::cmp::min::<')
    def _(e, c, a, p):
        x, y = a; yield p, I(T.ite(T.cmp('<=', x.t, y.t), x.t, y.t), x.ty)

    @reg(r' as Ord>::max$|std::cmp::max::<')
    def _(e, c, a, p):
        x, y = a; yield p, I(T.ite(T.cmp('>=', x.t, y.t), x.t, y.t), x.ty)

    @reg(r'Box::<.*>::new$')
    def _(e, c, a, p):
        yield p, Boxed(a[0])

    # ---- 256-bit kernels: contracts K1..K12 (DESIGN §5)
    @reg(r'(^|::)mul_u256$')
    def _(e, c, a, p):
        x, y = a; yield p, U256(T.mul(x.t, y.t))

    @reg(r'U256Muldiv::new$')
    def _(e, c, a, p):
        h, l = a; yield p, U256(T.add(T.mul(P2(128), h.t), l.t))

    @reg(r'U256Muldiv::checked_shift_word_left$')
    def _(e, c, a, p):
        x = e.deref(a[0])
        p1 = e.fork(p, T.cmp('<', x.t, P2(192)))
        if p1: yield p1, E('Some', [U256(T.mul(P2(64), x.t))])
        p2 = e.fork(p, T.cmp('>=', x.t, P2(192)))
        if p2: yield p2, E('None')

    @reg(r'U256Muldiv::shift_word_left$')
    def _(e, c, a, p):
        x = e.deref(a[0]); yield p, U256(T.mod(T.mul(P2(64), x.t), P2(256)))

    @reg(r'U256Muldiv::shift_word_right$')
    def _(e, c, a, p):
        x = e.deref(a[0]); yield p, U256(T.div(x.t, P2(64)))

    @reg(r'U256Muldiv::add$')
    def _(e, c, a, p):
        x, y = e.deref(a[0]), e.deref(a[1]); yield p, U256(T.mod(T.add(x.t, y.t), P2(256)))

    @reg(r'U256Muldiv::sub$')
    def _(e, c, a, p):
        x, y = e.deref(a[0]), e.deref(a[1]); yield p, U256(T.mod(T.sub(x.t, y.t), P2(256)))

    @reg(r'U256Muldiv::mul$')
    def _(e, c, a, p):
        x, y = e.deref(a[0]), e.deref(a[1]); yield p, U256(T.mod(T.mul(x.t, y.t), P2(256)))

    for nm, op in (('lte', '<='), ('lt', '<'), ('gte', '>='), ('gt', '>'), ('eq', '=')):
        def mk(op):
            def h(e, c, a, p):
                x, y = e.deref(a[0]), e.deref(a[1]); yield p, B(T.cmp(op, x.t, y.t))
            return h
        M.append((re.compile(r'U256Muldiv::' + nm + r'$'), mk(op)))

    @reg(r'U256Muldiv::is_zero$')
    def _(e, c, a, p):
        x = e.deref(a[0]); yield p, B(T.cmp('=', x.t, C(0)))

    @reg(r'U256Muldiv::try_into_u128$')
    def _(e, c, a, p):
        x = e.deref(a[0])
        p1 = e.fork(p, T.cmp('<', x.t, P2(128)))
        if p1: yield p1, E('Ok', [I(x.t, 'u128')])
        p2 = e.fork(p, T.cmp('>=', x.t, P2(128)))
        if p2: yield p2, E('Err', [E('NumberDownCastError')])

    @reg(r'U256Muldiv::div$')
    def _(e, c, a, p):
        n, d, flag = e.deref(a[0]), e.deref(a[1]), a[2]
        pz = e.fork(p, T.cmp('=', d.t, C(0)))
        if pz: yield pz, Panic('divide by zero')
        pn = e.fork(p, T.cmp('>', d.t, C(0)))
        if pn is None: return
        side = []
        q, r = e.divrem(n.t, d.t, side)
        pn = Path(pn.pc + side, pn.trace)
        rem = T.ite(flag.t, r, C(0))
        yield pn, S([U256(q), U256(rem)])

    return M


def convert_err(x):
    """`From` between error enums: keep the code name"""
    if isinstance(x, E) and x.var == 'TryFromIntError': return E('NumberCastError')
    return x


# =============================================================================== obligations
class Obligation:
    def __init__(self, key, pc, goal, note='', hints=()):
        self.key, self.pc, self.goal, self.note = key, list(pc), goal, note
        self.hints = hints if isinstance(hints, list) else list(hints)   # a list is shared by reference (global axioms grow while paths are explored)
        self.verdict = None; self.time = 0.0; self.model = None; self.solver = 'z3-5.1'

    def smt2(self, negate=True, get_model=True):
        ls = ['(set-logic ALL)', T.decls()]
        terms = list(self.hints) + list(self.pc) + [self.goal]
        if getattr(self, 'abstract_div', False):
            terms, qd, qc = T.abstract_div(terms)
            ls += [f'(declare-const {n} Int)' for n in qd]
            goal_t = terms[-1]
            terms = qc + terms[:-1] + [goal_t]
        defs, printed = T.smt_dag(terms)
        ls += defs
        for x in printed[:-1]: ls.append(f'(assert {x})')
        if negate: ls.append(f'(assert (not {printed[-1]}))')
        ls.append('(check-sat)')
        if get_model: ls.append('(get-model)')
        return '\n'.join(ls) + '\n'


PORTFOLIO = ['smt.arith.nl.horner=false', 'smt.random_seed=11', 'smt.arith.nl.grobner=false', 'smt.arith.nl.horner=false smt.random_seed=5']


def _run_solver(args):
    path, cap, solver = args
    t0 = time.time()
    if solver == 'cvc5':
        cmd = ['cvc5', '--lang', 'smt2', f'--tlimit={cap * 1000}', '--produce-models', path]
    elif solver.startswith('z3:'):
        cmd = ['z3-new', f'-T:{cap}'] + solver[3:].split() + [path]
    else:
        cmd = ['z3-new', f'-T:{cap}', path]
    try:
        out = subprocess.run(cmd, capture_output=True, text=True, timeout=cap + 20).stdout
    except subprocess.TimeoutExpired:
        out = 'timeout'
    return out, time.time() - t0


def parse_model(out):
    m = {}
    for mm in re.finditer(r'\(define-fun (\S+) \(\) (Int|Bool)\s+([^\n]*?)\)\n', out):
        v = mm.group(3).strip()
        if mm.group(2) == 'Bool': m[mm.group(1)] = (v == 'true')
        else:
            neg = re.match(r'\(- (\d+)\)', v)
            m[mm.group(1)] = -int(neg.group(1)) if neg else (int(v) if re.match(r'^\d+$', v) else None)
    return m


def discharge(obls, cap, jobs, outdir, solver='z3', portfolio=True, stop_after_sat=None):
    """run every obligation (negated goal) through the solver in parallel; sets verdict unsat/sat/unknown.
    stop_after_sat=N: once N obligations of this batch have counterexamples, the obligations not yet started are not run (verdict unknown, o.skipped = True):
    a changed tree can turn hundreds of easy unsat queries into hard sat/unknown ones, and the batch already has its violations to report"""
    os.makedirs(outdir, exist_ok=True)
    tasks = []
    for i, o in enumerate(obls):
        fn = os.path.join(outdir, re.sub(r'[^\w.-]', '_', o.key)[:150] + f'_{i}.smt2')
        open(fn, 'w').write(o.smt2())
        o.file = fn
        tasks.append((fn, cap, solver))
    state = {'sat': 0}
    def guarded(t):
        if stop_after_sat and state['sat'] >= stop_after_sat: return 'skipped', 0.0
        out, dt = _run_solver(t)
        if out.strip().startswith('sat'): state['sat'] += 1
        return out, dt
    with ThreadPoolExecutor(max_workers=jobs) as ex:
        res = list(ex.map(guarded, tasks))
    for o, (out, dt) in zip(obls, res):
        if out == 'skipped': o.skipped = True
    def classify(out):
        first = out.strip().split('\n')[0] if out.strip() else 'unknown'
        if '(error' in out and first != 'unsat':
            # z3 prints (error "model is not available") after unsat; anything else is inconclusive
            first = 'unknown' if 'model is not available' not in out else first
        if first == 'unsat' and '(error' in out and 'model is not available' not in out:
            first = 'unknown'
        return first if first in ('sat', 'unsat') else 'unknown'
    for o, (out, dt) in zip(obls, res):
        o.time = dt
        o.verdict = classify(out)
        if o.verdict == 'sat': o.model = parse_model(out)
    # second pass: a portfolio of solver configurations for what the default configuration left open
    hard = [o for o in obls if o.verdict == 'unknown' and not getattr(o, 'skipped', False)]
    if stop_after_sat and state['sat'] >= stop_after_sat: hard = []
    if hard and portfolio and solver == 'z3':
        tasks = [(o.file, cap, 'z3:' + cfg) for o in hard for cfg in PORTFOLIO]
        with ThreadPoolExecutor(max_workers=jobs) as ex:
            res2 = list(ex.map(_run_solver, tasks))
        k = 0
        for o in hard:
            for cfg in PORTFOLIO:
                out, dt = res2[k]; k += 1
                v = classify(out)
                if v != 'unknown' and o.verdict == 'unknown':
                    o.verdict = v; o.time += dt; o.solver = 'z3-5.1 ' + cfg
                    if v == 'sat': o.model = parse_model(out)
    return obls


def vacuity(engine, pcs):
    """a path condition must be satisfiable for the obligation to be non-trivial"""
    return [engine.feasible(pc) for pc in pcs]
