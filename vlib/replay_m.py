"""Native replay of Engine M counterexamples: run the real function (dev and release profile) on the
model's inputs and re-evaluate the obligation's goal on the real outputs with Python integers."""
import os, subprocess
from . import term as T

VERIF = os.path.dirname(os.path.dirname(os.path.abspath(__file__)))
KDIR = os.environ.get('VERIF_KDIR') or os.path.join(VERIF, 'k')
REPO = os.environ.get('VERIF_REPO', '/repo')
import hashlib
TDIR = os.path.join(VERIF, '.work', 'ktn' if REPO == '/repo' else 'ktn_' + hashlib.sha1(REPO.encode()).hexdigest()[:8])
_built = {}


def build(profile):
    if profile in _built: return _built[profile]
    env = dict(os.environ); env['CARGO_NET_OFFLINE'] = 'true'; env.pop('RUSTUP_TOOLCHAIN', None)
    cmd = ['cargo', 'build', '--offline', '--bin', 'mreplay', '--target-dir', TDIR]
    if REPO != '/repo': cmd += ['--config', f'paths=["{REPO}/programs/whirlpool"]']
    if profile == 'release': cmd.append('--release')
    p = subprocess.run(cmd, cwd=KDIR, env=env, capture_output=True, text=True)
    exe = os.path.join(TDIR, profile if profile == 'release' else 'debug', 'mreplay')
    _built[profile] = exe if p.returncode == 0 and os.path.exists(exe) else None
    return _built[profile]


def native(fn, args, profile='debug'):
    exe = build(profile)
    if not exe: return None
    a = [str(int(x)) if not isinstance(x, bool) else ('1' if x else '0') for x in args]
    p = subprocess.run([exe, fn] + a, capture_output=True, text=True, timeout=60)
    return p.stdout.strip()


def replay(o, log):
    """o.replay = dict(fn=name, args=[terms], check=callable(arg_values, native_output_str) -> bool|None)"""
    rp = getattr(o, 'replay', None)
    if not rp or not o.model:
        return 'none', 'no replay recipe'
    env = dict(o.model)
    if 'custom' in rp:
        for n in T.DECLS:
            env.setdefault(n, T.RANGES[n][0] or 0)
        try:
            v, info = rp['custom'](env)
        except Exception as e:
            return 'none', f'custom replay failed: {e}'
        with open(log, 'a') as f:
            f.write(o.key + '\n' + str(info) + '\n')
        return v, info
    for n in T.DECLS:
        env.setdefault(n, T.RANGES[n][0] or 0)
    for n in T.BDECLS:
        env.setdefault(n, False)
    try:
        vals = [T.evaluate(a, env) for a in rp['args']]
    except Exception as e:
        return 'none', f'cannot evaluate inputs: {e}'
    infos = []
    verdicts = []
    for prof in ('debug', 'release'):
        out = native(rp['fn'], vals, prof)
        if out is None:
            infos.append(f'{prof}: build failed'); continue
        ok = rp['check'](vals, out)
        infos.append(f"{prof}: {rp['fn']}({', '.join(map(str, vals))}) -> {out} : property {'HOLDS' if ok else 'VIOLATED'}")
        verdicts.append(ok)
    with open(log, 'a') as f:
        f.write(o.key + '\n' + '\n'.join(infos) + '\n')
    if not verdicts: return 'none', '; '.join(infos)
    if any(v is False for v in verdicts): return 'violates', '; '.join(infos)
    return 'holds', '; '.join(infos)
