"""Run context, obligation bookkeeping and evidence writer shared by all property checks."""
import json, os, re, shutil, time, hashlib
from . import kani as K

VERIF = os.path.dirname(os.path.dirname(os.path.abspath(__file__)))
WORK = os.path.join(VERIF, '.work')


class Fault(Exception):
    pass


class Ctx:
    def __init__(self, pid, tier, seed, jobs, only=None):
        self.pid, self.tier, self.seed, self.jobs = pid, tier, seed, jobs
        self.only = re.compile(only) if only else None
        self.obligations = []     # dicts: key, engine, verdict, time_s, detail, nontrivial, sample, replay
        self.functions = set()    # real functions encoded
        self.stubs = set()
        self.assumptions = []
        self.bounds = []
        self.solver_time = 0.0
        self.queries = 0
        self.target = None
        self.extra = {}
        self.logdir = os.path.join(WORK, 'logs', f'{pid}_{os.getpid()}')
        os.makedirs(self.logdir, exist_ok=True)

    # ------------------------------------------------------------------ bookkeeping
    def add(self, key, engine, verdict, time_s=0.0, detail='', nontrivial=True, sample=None, replay=None):
        self.obligations.append(dict(key=key, engine=engine, verdict=verdict, time_s=round(time_s, 2),
                                     detail=detail, nontrivial=nontrivial, sample=sample, replay=replay))

    def want(self, name):
        return self.only is None or self.only.search(name)

    def cleanup(self, keep=False):
        if self.target and not keep:
            shutil.rmtree(self.target, ignore_errors=True)
        if not keep:
            from . import kani as _K
            shutil.rmtree(_K.replay_dir(), ignore_errors=True)

    # ------------------------------------------------------------------ engine M
    def mir(self, tag='whirlpool', **kw):
        from . import mirsmt as M
        if not hasattr(self, '_mir'): self._mir = {}
        if tag not in self._mir:
            t0 = time.time()
            path = M.dump_mir(tag, **kw)
            self._mir[tag] = M.Mir(path)
            self.extra.setdefault('mir', {})[tag] = {'sha1': self._mir[tag].sha, 'functions': len(self._mir[tag].fns),
                                                      'dump_s': round(time.time() - t0, 1)}
            try: os.remove(path)
            except OSError: pass
        return self._mir[tag]

    def parallel(self, tasks, max_procs=None):
        """run task(child_ctx) callables in forked worker processes and merge their bookkeeping"""
        import multiprocessing as mp
        mpc = mp.get_context('fork')
        tasks = [(n, f) for n, f in tasks if self.only is None or True]
        max_procs = max_procs or min(len(tasks), self.jobs)
        per = max(1, self.jobs // max(1, min(len(tasks), max_procs)))
        running, pending, results = [], list(tasks), {}

        def worker(name, fn, conn):
            child = Ctx(self.pid, self.tier, self.seed, per, self.only.pattern if self.only else None)
            child.logdir = os.path.join(self.logdir, re.sub(r'[^\w.-]', '_', name))
            os.makedirs(child.logdir, exist_ok=True)
            child._mir = getattr(self, '_mir', {})
            err = None
            try:
                fn(child)
            except Fault as e:
                err = 'FAULT:' + str(e)
            except Exception:
                import traceback
                err = traceback.format_exc()
            conn.send(dict(obligations=child.obligations, functions=child.functions, stubs=child.stubs, bounds=child.bounds,
                           solver_time=child.solver_time, queries=child.queries, extra=child.extra, err=err,
                           assumptions=child.assumptions))
            conn.close()

        while pending or running:
            while pending and len(running) < max_procs:
                n, f = pending.pop(0)
                pc, cc = mpc.Pipe(duplex=False)
                pr = mpc.Process(target=worker, args=(n, f, cc))
                pr.start(); cc.close()
                running.append((n, pr, pc))
            still = []
            for n, pr, pc in running:
                if pc.poll(0.2):
                    try: results[n] = pc.recv()
                    except EOFError: results[n] = dict(err='worker died', obligations=[])
                    pr.join()
                elif not pr.is_alive():
                    results[n] = dict(err=f'worker exited with {pr.exitcode}', obligations=[])
                else:
                    still.append((n, pr, pc))
            running = still
        for n, _ in tasks:
            r = results.get(n, dict(err='no result', obligations=[]))
            self.obligations += r.get('obligations', [])
            self.functions |= r.get('functions', set()); self.stubs |= r.get('stubs', set())
            self.bounds += r.get('bounds', []); self.solver_time += r.get('solver_time', 0); self.queries += r.get('queries', 0)
            self.assumptions += [a for a in r.get('assumptions', []) if a not in self.assumptions]
            if r.get('extra'): self.extra.setdefault('tasks', {})[n] = r['extra']
            if r.get('err'):
                if r['err'].startswith('FAULT:'): raise Fault(f'{n}: ' + r['err'][6:])
                raise Fault(f'task {n} failed: ' + r['err'][-1500:])

    def cap(self, quick=60, thorough=600):
        return quick if self.tier == 'quick' else thorough

    def discharge(self, obls, cap=None, prefix='M'):
        """solver verdicts for a list of mirsmt.Obligation; sat models are replayed natively"""
        from . import mirsmt as M
        obls = [o for o in obls if self.want(o.key)]
        if not obls: return
        cap = cap or self.cap()
        M.discharge(obls, cap, self.jobs, os.path.join(self.logdir, 'smt'), stop_after_sat=5)
        for o in obls:
            self.queries += 1
            self.solver_time += o.time
            key = f'{prefix}:{o.key}'
            sample = {'obligation': o.key, 'note': o.note, 'goal': self._short(o), 'verdict': o.verdict, 'time_s': round(o.time, 2)}
            if o.verdict == 'unsat':
                self.add(key, 'M', 'discharged', o.time, '', getattr(o, 'nontrivial', True), sample)
            elif o.verdict == 'unknown':
                self.add(key, 'M', 'undecided', o.time, ('not run: 5 obligations of the same batch already have counterexamples' if getattr(o, 'skipped', False)
                                                         else f'solver gave no verdict within {cap}s'), True, sample)
            else:
                # native confirmation is expensive (process spawns, concretisation search): confirm a few representatives per obligation class,
                # the remaining sat obligations of a class that already reproduced are reported as violated with a reference to the replayed one
                cls = re.sub(r'\d+', '#', key)
                if not hasattr(self, '_confirmed'): self._confirmed, self._tries = {}, {}
                if cls in self._confirmed:
                    ref = self._confirmed[cls]
                    self.add(key, 'M', 'violated', o.time, f'solver model found; same obligation class as {ref[0]} which reproduced natively (replay not repeated)', True, sample, ref[1])
                    continue
                if self._tries.get(cls, 0) >= 3:
                    self.add(key, 'M', 'fault', o.time, 'solver model found; three models of this obligation class did not reproduce natively (not retried)', True, sample)
                    continue
                self._tries[cls] = self._tries.get(cls, 0) + 1
                n0 = len(self.obligations)
                self._confirm_m(o, key, sample)
                last = self.obligations[-1]
                if last['verdict'] == 'violated': self._confirmed[cls] = (key, last.get('replay'))

    @staticmethod
    def _short(o):
        from . import term as T
        g = T.smt(o.goal)
        return g if len(g) < 400 else g[:400] + '...'

    def _confirm_m(self, o, key, sample):
        from . import replay_m
        rdir = os.path.join(VERIF, 'replays', self.pid)
        os.makedirs(rdir, exist_ok=True)
        rp = os.path.join(rdir, re.sub(r'[^\w.-]', '_', o.key)[:120] + '.json')
        rec = {'property': self.pid, 'obligation': o.key, 'model': {k: v for k, v in (o.model or {}).items()}, 'smt2': getattr(o, 'file', None)}
        verdict, info = replay_m.replay(o, os.path.join(self.logdir, 'mreplay.log'))
        if verdict == 'none':
            # no native driver for this obligation (handler glue, leaf equivalences): re-evaluate the solver's model on the MIR-derived
            # path condition and goal with Python integers — a model that satisfies the path and falsifies the goal is a concrete run of
            # the real function's MIR (callee stubs take the values the model gives them)
            verdict, info = self._model_check(o)
        rec['native'] = info
        json.dump(rec, open(rp, 'w'), indent=1, default=str)
        if verdict == 'violates':
            self.add(key, 'M', 'violated', o.time, f'solver model reproduced on the real function: {info}', True, sample, rp)
        elif verdict == 'holds':
            self.add(key, 'M', 'fault', o.time, f'solver model does not reproduce natively (encoding wrong?): {info}', True, sample, rp)
        else:
            self.add(key, 'M', 'fault', o.time, f'sat, but no native replay available for this obligation: {info}', True, sample, rp)

    @staticmethod
    def _model_check(o):
        from . import term as T
        env = dict(o.model or {})
        for n in T.DECLS:
            if env.get(n) is None: env[n] = T.RANGES[n][0] or 0
        for n in T.BDECLS:
            if env.get(n) is None: env[n] = False
        try:
            terms = list(o.hints) + list(o.pc) + [o.goal]
            if getattr(o, 'abstract_div', False): return 'none', 'model re-evaluation not available for abstracted divisions'
            ok_pc = all(T.evaluate(c, env) for c in terms[:-1])
            g = T.evaluate(o.goal, env)
        except Exception as e:
            return 'none', f'model re-evaluation failed: {e}'
        if ok_pc and not g:
            shown = {k: v for k, v in env.items() if k in (o.model or {})}
            return 'violates', 'MIR-level replay: the model satisfies the path condition of the real function and falsifies the goal: ' + str(shown)[:600]
        return 'holds', 'the solver model does not satisfy the path condition / falsify the goal when re-evaluated'

    # ------------------------------------------------------------------ engine K
    def run_kani(self, files):
        hs = [h for h in K.parse_harnesses(files) if h.prop is None or self.pid in h.prop.split(',')]
        hs = [h for h in hs if (h.tier == 'quick' or self.tier == 'thorough') and self.want(h.full)]
        if not hs:
            return
        self.target = K.prepare_target(f'{self.pid}_{os.getpid()}')
        small = [h for h in hs if not h.large]
        large = [h for h in hs if h.large]
        res = {}
        if small:
            res.update(K.run_group(small, self.target, min(self.jobs, len(small)), 16,
                                   os.path.join(self.logdir, 'kani_small.log')))
        if large:
            res.update(K.run_group(large, self.target, min(2, len(large)), 40,      # two at a time: the C13 history harnesses need ~20 GB each on a 62 GB machine without swap
                                   os.path.join(self.logdir, 'kani_large.log')))
        for h in hs:
            r = res[h.full]
            for s in h.stubs: self.stubs.add(f'{s[0]} -> {s[1]}')
            if h.unwind: self.bounds.append(f'{h.name}: unwind {h.unwind}')
            self.queries += 1
            c = r.get('cbmc') or {}
            self.solver_time += c.get('runtime_decision_procedure_s', 0.0) or 0.0
            sample = {'harness': h.full, 'doc': h.doc, 'checks': r.get('props', {}).get('total_properties'),
                      'covers_satisfied': r.get('props', {}).get('satisfied'),
                      'symex_s': c.get('runtime_symex_s'), 'solver_s': c.get('runtime_solver_s'),
                      'vccs': c.get('vccs_generated')}
            key = f'K:{h.full}'
            st = r['status']
            if st == 'build_error':
                raise Fault('harness crate does not build against the current /repo tree; see ' + self.logdir)
            if h.twin:
                if st == 'failed' and all('twin' in c['desc'] or c['category'] == 'unwind' for c in r['failed_checks']) \
                        and any('twin' in c['desc'] for c in r['failed_checks']):
                    self.add(key, 'K', 'discharged', r['wall_s'], 'vacuity twin failed as required', False, sample)
                elif st == 'success':
                    self.add(key, 'K', 'fault', r['wall_s'], 'vacuity twin PASSED: harness family is vacuous', False, sample)
                elif st == 'failed':
                    self.add(key, 'K', 'fault', r['wall_s'], 'twin failed on other checks: ' + r['reason'], False, sample)
                else:
                    self.add(key, 'K', 'undecided', r['wall_s'], r['reason'], False, sample)
                continue
            if st == 'success':
                self.add(key, 'K', 'discharged', r['wall_s'], '', True, sample)
            elif st == 'vacuous':
                self.add(key, 'K', 'fault', r['wall_s'], r['reason'], True, sample)
            elif st == 'undecided':
                self.add(key, 'K', 'undecided', r['wall_s'], r['reason'], True, sample)
            elif st == 'failed':
                self._confirm(h, r, key, sample)

    def _confirm(self, h, r, key, sample):
        """solver says FAILED: reproduce natively before reporting"""
        detail = r['reason']
        rdir = os.path.join(VERIF, 'replays', self.pid)
        os.makedirs(rdir, exist_ok=True)
        tests = []
        try:
            tests = K.playback_test_code(h, self.target, os.path.join(self.logdir, f'playback_{h.name}.log'))
        except Exception as e:
            detail += f' (playback generation failed: {e})'
        if not tests:
            self.add(key + ':' + detail[:120], 'K', 'fault', r['wall_s'],
                     'solver reported FAILED but no concrete playback could be produced: ' + detail, True, sample)
            return
        verdict, rpath = 'error', None
        for n, code in enumerate(tests[:4]):
            hsh = hashlib.sha1(code.encode()).hexdigest()[:10]
            rp = os.path.join(rdir, f'{h.name}_{hsh}.rs')
            open(rp, 'w').write(f'// property {self.pid}, harness {h.full}\n// failed checks: {detail}\n'
                                f'// replay: append to k/src/{h.module}.rs and run `cargo kani playback -Z concrete-playback --lib -- <name>`\n' + code)
            v = K.native_replay(h, code, os.path.join(self.logdir, f'replay_{h.name}_{n}.log'))
            if rpath is None or v == 'violates':
                rpath = rp
            if v == 'violates' or verdict == 'error':
                verdict = v
            if v == 'violates':
                break
        if verdict == 'violates':
            self.add(key + ':' + detail[:160], 'K', 'violated', r['wall_s'], detail + ' [reproduced natively]', True, sample, rpath)
        elif verdict == 'passes' and not h.contract_stubs and not self._ub_only(r):
            self.add(key + ':' + detail[:160], 'K', 'fault', r['wall_s'],
                     'counterexample does not reproduce natively (encoding or stub wrong): ' + detail, True, sample, rpath)
        elif verdict == 'passes':
            self.add(key + ':' + detail[:160], 'K', 'fault', r['wall_s'], 'UNCONFIRMED (contract stubs / UB-only): ' + detail, True, sample, rpath)
        else:
            self.add(key + ':' + detail[:160], 'K', 'fault', r['wall_s'], 'native replay could not be run: ' + detail, True, sample, rpath)

    @staticmethod
    def _ub_only(r):
        return all(c['category'] in ('pointer_dereference', 'pointer', 'bounds_check') for c in r['failed_checks'])


def write(ctx, mod, wall, nviol):
    obs = ctx.obligations
    level = getattr(mod, 'LEVEL', 'model_checking')
    disc = [o for o in obs if o['verdict'] == 'discharged']
    nontriv = len({o['key'] for o in disc if o['nontrivial']})
    samples = [o['sample'] for o in obs if o.get('sample')][:8]
    cov = {
        'evaluations': max(ctx.queries, len(obs)),
        'distinct_nontrivial': nontriv,
        'rule': 'one evaluation = one solver query (a Kani/CBMC harness over all symbolic inputs, or one SMT obligation '
                'generated from the MIR of the real function); non-trivial = discharged obligations whose vacuity witness '
                '(kani::cover! / sat-check of the path condition) was satisfied; twins are counted as trivial',
        'samples': samples or ['(none)'],
        'obligations': len(obs),
        'discharged': len(disc),
        'undischarged': [{'key': o['key'], 'verdict': o['verdict'], 'detail': o['detail'][:300]} for o in obs if o['verdict'] != 'discharged'],
        'functions_encoded': sorted(ctx.functions | set(getattr(mod, 'FUNCTIONS', []))),
        'bounds': sorted(set(ctx.bounds)) + list(getattr(mod, 'BOUNDS', [])),
        'outside_claim': list(getattr(mod, 'OUTSIDE', [])),
        'stubs': sorted(ctx.stubs),
        'queries': ctx.queries,
        'solver_time_s': round(ctx.solver_time, 2),
        'per_obligation': [{'key': o['key'], 'engine': o['engine'], 'verdict': o['verdict'], 'time_s': o['time_s']} for o in obs],
        'explanation': getattr(mod, 'EXPLANATION', ''),
        'exhaustive': False,
    }
    cov.update(ctx.extra)
    if level == 'translation_validation':
        cov['programs'] = max(1, len(cov['functions_encoded']))
        cov['disagreements_checked'] = len(obs)
    ev = {
        'property_id': ctx.pid, 'tier': ctx.tier, 'seed': ctx.seed, 'level': level, 'coverage': cov,
        'assumptions': list(getattr(mod, 'ASSUMPTIONS', [])) + ctx.assumptions,
        'wall_s': round(wall, 1), 'violations': nviol,
    }
    edir = os.environ.get('VERIF_EVIDENCE_DIR') or os.path.join(VERIF, 'evidence')   # self-tests on scratch copies write elsewhere
    os.makedirs(edir, exist_ok=True)
    p = os.path.join(edir, f'{ctx.pid}.json')
    tmp = p + '.tmp'
    json.dump(ev, open(tmp, 'w'), indent=1, default=str)
    os.replace(tmp, p)
