"""Run context, obligation bookkeeping and evidence writer shared by all property checks."""
import json, os, re, shutil, time, hashlib
from . import kani as K

VERIF = os.path.dirname(os.path.dirname(os.path.abspath(__file__)))
WORK = os.path.join(VERIF, '.work')


class Fault(Exception):
    pass


class Ctx:
    def __init__(self, pid, tier, seed, jobs, only=None):
        self.pid, self.tier, self.seed, self.jobs = pid, tier, seed, jobs
        self.only = re.compile(only) if only else None
        self.obligations = []     # dicts: key, engine, verdict, time_s, detail, nontrivial, sample, replay
        self.functions = set()    # real functions encoded
        self.stubs = set()
        self.assumptions = []
        self.bounds = []
        self.solver_time = 0.0
        self.queries = 0
        self.target = None
        self.extra = {}
        self.logdir = os.path.join(WORK, 'logs', f'{pid}_{os.getpid()}')
        os.makedirs(self.logdir, exist_ok=True)

    # ------------------------------------------------------------------ bookkeeping
    def add(self, key, engine, verdict, time_s=0.0, detail='', nontrivial=True, sample=None, replay=None):
        self.obligations.append(dict(key=key, engine=engine, verdict=verdict, time_s=round(time_s, 2),
                                     detail=detail, nontrivial=nontrivial, sample=sample, replay=replay))

    def want(self, name):
        return self.only is None or self.only.search(name)

    def cleanup(self, keep=False):
        if self.target and not keep:
            shutil.rmtree(self.target, ignore_errors=True)
        if not keep:
            shutil.rmtree(os.path.join(WORK, 'replay'), ignore_errors=True)

    # ------------------------------------------------------------------ engine K
    def run_kani(self, files):
        hs = [h for h in K.parse_harnesses(files) if h.prop in (None, self.pid)]
        hs = [h for h in hs if (h.tier == 'quick' or self.tier == 'thorough') and self.want(h.name)]
        if not hs:
            return
        self.target = K.prepare_target(f'{self.pid}_{os.getpid()}')
        small = [h for h in hs if not h.large]
        large = [h for h in hs if h.large]
        res = {}
        if small:
            res.update(K.run_group(small, self.target, min(self.jobs, len(small)), 16,
                                   os.path.join(self.logdir, 'kani_small.log')))
        if large:
            res.update(K.run_group(large, self.target, min(3, len(large)), 40,
                                   os.path.join(self.logdir, 'kani_large.log')))
        for h in hs:
            r = res[h.full]
            for s in h.stubs: self.stubs.add(f'{s[0]} -> {s[1]}')
            if h.unwind: self.bounds.append(f'{h.name}: unwind {h.unwind}')
            self.queries += 1
            c = r.get('cbmc', {})
            self.solver_time += c.get('runtime_decision_procedure_s', 0.0) or 0.0
            sample = {'harness': h.full, 'doc': h.doc, 'checks': r.get('props', {}).get('total_properties'),
                      'covers_satisfied': r.get('props', {}).get('satisfied'),
                      'symex_s': c.get('runtime_symex_s'), 'solver_s': c.get('runtime_solver_s'),
                      'vccs': c.get('vccs_generated')}
            key = f'K:{h.full}'
            st = r['status']
            if st == 'build_error':
                raise Fault('harness crate does not build against the current /repo tree; see ' + self.logdir)
            if h.twin:
                if st == 'failed' and all('twin' in c['desc'] or c['category'] == 'unwind' for c in r['failed_checks']) \
                        and any('twin' in c['desc'] for c in r['failed_checks']):
                    self.add(key, 'K', 'discharged', r['wall_s'], 'vacuity twin failed as required', False, sample)
                elif st == 'success':
                    self.add(key, 'K', 'fault', r['wall_s'], 'vacuity twin PASSED: harness family is vacuous', False, sample)
                elif st == 'failed':
                    self.add(key, 'K', 'fault', r['wall_s'], 'twin failed on other checks: ' + r['reason'], False, sample)
                else:
                    self.add(key, 'K', 'undecided', r['wall_s'], r['reason'], False, sample)
                continue
            if st == 'success':
                self.add(key, 'K', 'discharged', r['wall_s'], '', True, sample)
            elif st == 'vacuous':
                self.add(key, 'K', 'fault', r['wall_s'], r['reason'], True, sample)
            elif st == 'undecided':
                self.add(key, 'K', 'undecided', r['wall_s'], r['reason'], True, sample)
            elif st == 'failed':
                self._confirm(h, r, key, sample)

    def _confirm(self, h, r, key, sample):
        """solver says FAILED: reproduce natively before reporting"""
        detail = r['reason']
        rdir = os.path.join(VERIF, 'replays', self.pid)
        os.makedirs(rdir, exist_ok=True)
        tests = []
        try:
            tests = K.playback_test_code(h, self.target, os.path.join(self.logdir, f'playback_{h.name}.log'))
        except Exception as e:
            detail += f' (playback generation failed: {e})'
        if not tests:
            self.add(key + ':' + detail[:120], 'K', 'fault', r['wall_s'],
                     'solver reported FAILED but no concrete playback could be produced: ' + detail, True, sample)
            return
        verdict, rpath = 'error', None
        for n, code in enumerate(tests[:4]):
            hsh = hashlib.sha1(code.encode()).hexdigest()[:10]
            rp = os.path.join(rdir, f'{h.name}_{hsh}.rs')
            open(rp, 'w').write(f'// property {self.pid}, harness {h.full}\n// failed checks: {detail}\n'
                                f'// replay: append to k/src/{h.module}.rs and run `cargo kani playback -Z concrete-playback --lib -- <name>`\n' + code)
            v = K.native_replay(h, code, os.path.join(self.logdir, f'replay_{h.name}_{n}.log'))
            if rpath is None or v == 'violates':
                rpath = rp
            if v == 'violates' or verdict == 'error':
                verdict = v
            if v == 'violates':
                break
        if verdict == 'violates':
            self.add(key + ':' + detail[:160], 'K', 'violated', r['wall_s'], detail + ' [reproduced natively]', True, sample, rpath)
        elif verdict == 'passes' and not h.contract_stubs and not self._ub_only(r):
            self.add(key + ':' + detail[:160], 'K', 'fault', r['wall_s'],
                     'counterexample does not reproduce natively (encoding or stub wrong): ' + detail, True, sample, rpath)
        elif verdict == 'passes':
            self.add(key + ':' + detail[:160], 'K', 'fault', r['wall_s'], 'UNCONFIRMED (contract stubs / UB-only): ' + detail, True, sample, rpath)
        else:
            self.add(key + ':' + detail[:160], 'K', 'fault', r['wall_s'], 'native replay could not be run: ' + detail, True, sample, rpath)

    @staticmethod
    def _ub_only(r):
        return all(c['category'] in ('pointer_dereference', 'pointer', 'bounds_check') for c in r['failed_checks'])


def write(ctx, mod, wall, nviol):
    obs = ctx.obligations
    level = getattr(mod, 'LEVEL', 'model_checking')
    disc = [o for o in obs if o['verdict'] == 'discharged']
    nontriv = len({o['key'] for o in disc if o['nontrivial']})
    samples = [o['sample'] for o in obs if o.get('sample')][:8]
    cov = {
        'evaluations': max(ctx.queries, len(obs)),
        'distinct_nontrivial': nontriv,
        'rule': 'one evaluation = one solver query (a Kani/CBMC harness over all symbolic inputs, or one SMT obligation '
                'generated from the MIR of the real function); non-trivial = discharged obligations whose vacuity witness '
                '(kani::cover! / sat-check of the path condition) was satisfied; twins are counted as trivial',
        'samples': samples or ['(none)'],
        'obligations': len(obs),
        'discharged': len(disc),
        'undischarged': [{'key': o['key'], 'verdict': o['verdict'], 'detail': o['detail'][:300]} for o in obs if o['verdict'] != 'discharged'],
        'functions_encoded': sorted(ctx.functions | set(getattr(mod, 'FUNCTIONS', []))),
        'bounds': sorted(set(ctx.bounds)) + list(getattr(mod, 'BOUNDS', [])),
        'outside_claim': list(getattr(mod, 'OUTSIDE', [])),
        'stubs': sorted(ctx.stubs),
        'queries': ctx.queries,
        'solver_time_s': round(ctx.solver_time, 2),
        'per_obligation': [{'key': o['key'], 'engine': o['engine'], 'verdict': o['verdict'], 'time_s': o['time_s']} for o in obs],
        'explanation': getattr(mod, 'EXPLANATION', ''),
        'exhaustive': False,
    }
    cov.update(ctx.extra)
    if level == 'translation_validation':
        cov['programs'] = max(1, len(cov['functions_encoded']))
        cov['disagreements_checked'] = len(obs)
    ev = {
        'property_id': ctx.pid, 'tier': ctx.tier, 'seed': ctx.seed, 'level': level, 'coverage': cov,
        'assumptions': list(getattr(mod, 'ASSUMPTIONS', [])) + ctx.assumptions,
        'wall_s': round(wall, 1), 'violations': nviol,
    }
    os.makedirs(os.path.join(VERIF, 'evidence'), exist_ok=True)
    p = os.path.join(VERIF, 'evidence', f'{ctx.pid}.json')
    tmp = p + '.tmp'
    json.dump(ev, open(tmp, 'w'), indent=1, default=str)
    os.replace(tmp, p)
