"""Engine K: drive `cargo kani` over /verif/k (path-dependent on /repo) and classify results.

A harness is *discharged* only when Kani reports Success, no undetermined /
solver-error checks, and every kani::cover! is satisfied.  A twin harness
(annotated `twin`) must FAIL on exactly its twin assertion; a passing twin means
the harness family is vacuous (machinery fault, exit 2).  Timeouts / OOM are
`undecided`, never success.
"""
import json, os, re, shutil, subprocess, time, hashlib

VERIF = os.path.dirname(os.path.dirname(os.path.abspath(__file__)))
KDIR = os.environ.get('VERIF_KDIR') or os.path.join(VERIF, 'k')
WORK = os.path.join(VERIF, '.work')
KBASE = os.path.join(WORK, 'kbase')
REPO = os.environ.get('VERIF_REPO', '/repo')     # development / self-test: run against a scratch copy of the repository


def repo_override():
    return []      # `cargo kani` rejects --config; a scratch repository is handled by a rewritten copy of the harness crate (see _scratch_kdir)


def _scratch_kdir(kdir):
    """self-tests against a scratch copy of the repository: copy the harness crate and point its path dependency at the scratch copy"""
    dst = os.path.join(WORK, 'kdir_' + hashlib.sha1((REPO + kdir).encode()).hexdigest()[:8])
    if os.path.isdir(dst): shutil.rmtree(dst, ignore_errors=True)
    shutil.copytree(kdir, dst, ignore=shutil.ignore_patterns('target', 'Cargo.lock'))
    ct = os.path.join(dst, 'Cargo.toml')
    t = open(ct).read().replace('/repo/programs/whirlpool', REPO + '/programs/whirlpool')
    open(ct, 'w').write(t)
    return dst

ANN = re.compile(r'//\s*@verif\s+(.*)')


class Harness:
    def __init__(self, module, name, opts, doc):
        self.module, self.name, self.doc = module, name, doc
        self.full = f'{module}::{name}'
        self.tier = opts.get('tier', 'quick')
        self.timeout = int(opts.get('timeout', 600))
        self.large = 'large' in opts
        self.twin = 'twin' in opts
        self.prop = opts.get('prop')
        self.clause = opts.get('clause', '')
        self.stubs = []
        self.unwind = None
        self.contract_stubs = 'contract' in opts  # uses nondeterministic contract stubs
        self.unwindset = [x for x in str(opts.get('unwindset', '')).split(',') if x and x is not True]   # e.g. memcmp.0:85

    def __repr__(self):
        return f'<H {self.full} {self.tier}>'


if REPO != '/repo':
    KDIR = _scratch_kdir(KDIR)


def parse_harnesses(files=None):
    """Read k/src/*.rs and return the annotated #[kani::proof] harnesses."""
    out = []
    src = os.path.join(KDIR, 'src')
    for fn in sorted(os.listdir(src)):
        if not fn.endswith('.rs') or fn in ('lib.rs',):
            continue
        if files and fn not in files:
            continue
        mod = fn[:-3]
        lines = open(os.path.join(src, fn)).read().split('\n')
        i = 0
        while i < len(lines):
            if lines[i].strip() == '#[kani::proof]':
                # annotations + doc above
                opts, doc = {}, []
                j = i - 1
                while j >= 0 and (lines[j].strip().startswith('//') or lines[j].strip().startswith('#[')):
                    m = ANN.match(lines[j].strip())
                    if m:
                        for tok in m.group(1).split():
                            if '=' in tok:
                                k, v = tok.split('=', 1); opts[k] = v
                            else:
                                opts[tok] = True
                    elif lines[j].strip().startswith('///'):
                        doc.insert(0, lines[j].strip()[3:].strip())
                    j -= 1
                stubs, unwind = [], None
                k = i + 1
                while k < len(lines) and not re.match(r'\s*(pub )?fn ', lines[k]):
                    s = lines[k].strip()
                    m = re.match(r'#\[kani::stub\((.*),\s*([\w:]+)\)\]', s)
                    if m: stubs.append((m.group(1).strip(), m.group(2)))
                    m = re.match(r'#\[kani::unwind\((\d+)\)\]', s)
                    if m: unwind = int(m.group(1))
                    k += 1
                m = re.match(r'\s*(?:pub )?fn (\w+)', lines[k])
                h = Harness(mod, m.group(1), opts, ' '.join(doc))
                h.stubs, h.unwind = stubs, unwind
                out.append(h)
                i = k
            i += 1
    return out


def _sync_lock():
    src = os.path.join(REPO, 'Cargo.lock')
    dst = os.path.join(KDIR, 'Cargo.lock')
    try:
        if not os.path.exists(dst) or open(src, 'rb').read() != open(dst, 'rb').read():
            tmp = dst + f'.{os.getpid()}'
            shutil.copyfile(src, tmp); os.replace(tmp, dst)
    except FileNotFoundError:
        pass


def prepare_target(tag):
    """own target dir per check run, seeded from the dependency base if setup built one"""
    t = os.path.join(WORK, 'kt', tag)
    if os.path.isdir(t):
        shutil.rmtree(t, ignore_errors=True)
    os.makedirs(os.path.dirname(t), exist_ok=True)
    if os.path.isdir(KBASE):
        subprocess.run(['cp', '-a', '--reflink=auto', KBASE, t], check=False)
    else:
        os.makedirs(t, exist_ok=True)
    return t


def kani_env():
    e = dict(os.environ)
    e['CARGO_NET_OFFLINE'] = 'true'
    e.pop('RUSTUP_TOOLCHAIN', None)
    return e


def run_group(hs, target, jobs, mem_gb, log_path, extra=()):
    """one cargo-kani invocation over a list of harnesses; returns dict full-name -> result"""
    if not hs:
        return {}
    _sync_lock()
    jpath = log_path + '.json'
    if os.path.exists(jpath): os.remove(jpath)
    tmo = max(h.timeout for h in hs)
    cmd = ['cargo', 'kani', '--target-dir', target, '-Z', 'stubbing', '-Z', 'unstable-options',
           '--harness-timeout', f'{tmo}s', '--export-json', jpath, '--output-format', 'terse',
           '-j', str(jobs), '--exact', '--no-assertion-reach-checks'] + list(extra) + repo_override()
    for h in hs:
        cmd += ['--harness', h.full]
    uw = sorted({u for h in hs for u in h.unwindset})
    if uw:
        cmd += ['--cbmc-args', '--unwindset', ','.join(uw)]
    sh = f'ulimit -s unlimited 2>/dev/null; ulimit -v {mem_gb * 1024 * 1024}; exec ' + ' '.join(cmd)
    t0 = time.time()
    waves = (len(hs) + jobs - 1) // jobs
    with open(log_path, 'w') as lf:
        try:
            p = subprocess.run(['bash', '-c', sh], cwd=KDIR, env=kani_env(), stdout=lf, stderr=subprocess.STDOUT,
                               timeout=tmo * waves + 900)
            rc = p.returncode
        except subprocess.TimeoutExpired:
            rc = -9
    wall = time.time() - t0
    res = {h.full: {'status': 'undecided', 'reason': f'no result (cargo kani rc={rc})', 'wall_s': 0.0} for h in hs}
    log = open(log_path, errors='replace').read()
    if 'could not compile' in log or 'error: Failed to execute cargo' in log:
        for r in res.values():
            r['status'] = 'build_error'; r['reason'] = 'harness crate failed to build against /repo'
        return res
    if not os.path.exists(jpath):
        return res
    d = json.load(open(jpath))
    errs = {e['harness_id']: e for e in d.get('error_details', [])}
    props = {e['harness_id']: e['property_details'] for e in d.get('property_details', [])}
    stats = {e['harness_id']: (e.get('cbmc_stats') or {}) for e in d.get('cbmc', [])}
    for r in d['verification_results']['results']:
        hid = r['harness_id']
        if hid not in res: continue
        pd = props.get(hid, {})
        failed = [c for c in r.get('checks', []) if c.get('status') == 'Failure']
        o = res[hid]
        o['wall_s'] = r.get('duration_ms', 0) / 1000.0
        o['props'] = pd
        o['cbmc'] = stats.get(hid, {})
        o['failed_checks'] = [{'desc': c.get('description', ''), 'fn': c.get('function', ''),
                               'loc': f"{c.get('location', {}).get('file', '')}:{c.get('location', {}).get('line', '')}",
                               'category': c.get('category', '')} for c in failed]
        ex = errs.get(hid, {})
        if ex.get('exit_status') == 'timeout':
            o['status'] = 'undecided'; o['reason'] = 'timeout'
        elif r['status'] == 'Success':
            if pd.get('undetermined', 0) or pd.get('solver_error', 0):
                o['status'] = 'undecided'; o['reason'] = 'undetermined checks'
            elif pd.get('unsatisfiable', 0):
                o['status'] = 'vacuous'; o['reason'] = f"{pd['unsatisfiable']} cover(s) unsatisfiable"
            else:
                o['status'] = 'success'; o['reason'] = ''
        else:
            if failed:
                o['status'] = 'failed'; o['reason'] = '; '.join(sorted({c['desc'] for c in o['failed_checks']}))[:400]
            else:
                o['status'] = 'undecided'; o['reason'] = f"cbmc failure without failed checks ({ex.get('exit_status')})"
    return res


def playback_test_code(h, target, log_path):
    """re-run a failed harness with concrete playback and return the generated unit test source"""
    cmd = ['cargo', 'kani', '--target-dir', target, '-Z', 'stubbing', '-Z', 'concrete-playback',
           '--concrete-playback=print', '--output-format', 'terse', '--exact', '--harness', h.full,
           '-Z', 'unstable-options', '--harness-timeout', f'{h.timeout}s', '--no-assertion-reach-checks'] + repo_override()
    if h.unwindset:
        cmd += ['--cbmc-args', '--unwindset', ','.join(h.unwindset)]
    p = subprocess.run(cmd, cwd=KDIR, env=kani_env(), capture_output=True, text=True, timeout=h.timeout + 900)
    out = p.stdout + p.stderr
    open(log_path, 'w').write(out)
    tests = []
    for blk in re.findall(r'```\n(.*?)```', out, re.S):
        for t in re.findall(r'(/// Test generated.*?\n}\n)', blk, re.S):
            m = re.search(r'/// Check for `(\w+)`', t)
            if m and m.group(1) == 'cover':
                continue
            tests.append(t)
    return tests


def replay_dir():
    """native replay scratch + target dir of THIS check process (removed by its own cleanup; concurrent checks never share it)"""
    return os.path.join(WORK, f'replay_{os.getpid()}')


def native_replay(h, test_code, log_path, release=False):
    """Run the playback test natively against the real code (no stubs). Returns 'violates' | 'passes' | 'error'."""
    rdir = replay_dir()
    scratch = os.path.join(rdir, f'{h.name}_{os.getpid()}')
    if os.path.isdir(scratch): shutil.rmtree(scratch)
    shutil.copytree(KDIR, scratch, ignore=shutil.ignore_patterns('target'))
    modfile = os.path.join(scratch, 'src', h.module + '.rs')
    m = re.search(r'fn (kani_concrete_playback_\w+)', test_code)
    tname = m.group(1)
    with open(modfile, 'a') as f:
        f.write('\n' + test_code + '\n')
    cmd = ['cargo', 'kani', 'playback', '-Z', 'concrete-playback', '--lib'] + repo_override() + ['--', tname]
    env = kani_env(); env['CARGO_TARGET_DIR'] = os.path.join(rdir, 'target')
    import fcntl
    os.makedirs(rdir, exist_ok=True)
    lock = open(os.path.join(rdir, '.lock'), 'w')
    fcntl.flock(lock, fcntl.LOCK_EX)        # the native replay target dir is shared: concurrent checks must not build in it at the same time
    try:
        p = subprocess.run(cmd, cwd=scratch, env=env, capture_output=True, text=True, timeout=1800)
        out = p.stdout + p.stderr
    except subprocess.TimeoutExpired:
        out = 'TIMEOUT'; p = None
    finally:
        fcntl.flock(lock, fcntl.LOCK_UN); lock.close()
    open(log_path, 'w').write(out)
    shutil.rmtree(scratch, ignore_errors=True)
    if p is None: return 'error'
    if re.search(r'test result: FAILED|panicked at', out): return 'violates'
    if re.search(r'test result: ok\. 1 passed', out): return 'passes'
    return 'error'
