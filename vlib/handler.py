"""Handler mode for Engine M: execute instruction-handler glue from MIR with every heavy callee replaced by a recording summary.

* accounts are values `Acct(key, data)`; `Deref`/`DerefMut`/`Key::key`/`to_account_info` are modelled on them
* keys (Pubkey) are symbolic integers, `PartialEq` on them is integer equality
* a call without MIR body, model or summary is *havocked by its return type* (fresh symbols of the right shape) and recorded
  in the path trace as ('call', callee, args) — so obligations can talk about which callee got which arguments in which order
"""
import os, re
from . import term as T
from .term import C, TRUE, FALSE
from . import mirsmt as M
from .mirsmt import I, B, S, E, Arr, Ref, Opaque, Boxed, Panic, Unit, Path, BITS

BITS.setdefault('pubkey', 256)
_STRUCTS = None


def source_structs():
    """name -> [(field, type)] for every `struct` with named fields in the program crate (current source)"""
    global _STRUCTS
    if _STRUCTS is not None: return _STRUCTS
    out = {}
    root = os.path.join(M.REPO, 'programs/whirlpool/src')
    for dp, _, fs in os.walk(root):
        for f in fs:
            if not f.endswith('.rs'): continue
            txt = open(os.path.join(dp, f)).read()
            txt = re.sub(r'//[^\n]*', '', txt)
            for m in re.finditer(r'\bstruct\s+(\w+)\s*(?:<[^>{]*>)?\s*\{', txt):
                i = m.end(); d = 1; j = i
                while j < len(txt) and d:
                    if txt[j] == '{': d += 1
                    elif txt[j] == '}': d -= 1
                    j += 1
                body = txt[i:j - 1]
                # attributes may nest parentheses/brackets: remove `#[account( ... )]` blocks conservatively
                body = re.sub(r'#\[(?:[^\[\]]|\[[^\[\]]*\])*\]', '', body, flags=re.S)
                fields = []
                for part in M.split_top(body):
                    mm = re.match(r'\s*(?:pub(?:\([^)]*\))?\s+)?(\w+)\s*:\s*(.*)$', part.strip(), re.S)
                    if mm: fields.append((mm.group(1), ' '.join(mm.group(2).split())))
                if fields: out.setdefault(m.group(1), fields)
    _STRUCTS = out
    return out


_ENUMS = None


def source_enums():
    """enum name -> [(variant, [(field, type)] | None)] for the program crate (struct-like variants carry their fields)"""
    global _ENUMS
    if _ENUMS is not None: return _ENUMS
    out = {}
    root = os.path.join(M.REPO, 'programs/whirlpool/src')
    for dp, _, fs in os.walk(root):
        for f in fs:
            if not f.endswith('.rs'): continue
            txt = re.sub(r'//[^\n]*', '', open(os.path.join(dp, f)).read())
            for m in re.finditer(r'\benum\s+(\w+)\s*(?:<[^>{]*>)?\s*\{', txt):
                i = m.end(); d = 1; j = i
                while j < len(txt) and d:
                    if txt[j] == '{': d += 1
                    elif txt[j] == '}': d -= 1
                    j += 1
                body = re.sub(r'#\[(?:[^\[\]]|\[[^\[\]]*\])*\]', '', txt[i:j - 1], flags=re.S)
                vs = []
                for part in M.split_top(body):
                    mm = re.match(r'\s*(\w+)\s*(?:\{(.*)\})?', part.strip(), re.S)
                    if not mm: continue
                    fields = None
                    if mm.group(2) is not None:
                        fields = []
                        for fp in M.split_top(mm.group(2)):
                            fm = re.match(r'\s*(\w+)\s*:\s*(.*)$', fp.strip(), re.S)
                            if fm: fields.append((fm.group(1), ' '.join(fm.group(2).split())))
                    vs.append((mm.group(1), fields))
                if vs: out.setdefault(m.group(1), vs)
    _ENUMS = out
    return out


class Acct:
    """an account: symbolic key + its deserialised data value (or None)"""
    def __init__(s, name, key, data=None): s.name, s.key, s.data = name, key, data
    def __repr__(s): return f'Acct({s.name})'


class FRef:
    """reference to the data of an account held somewhere else (result of Deref on Account<T>)"""
    def __init__(s, acct_ref): s.acct_ref = acct_ref


INT_TYPES = set(BITS) - {'pubkey'}


class Havoc:
    def __init__(self, engine):
        self.e = engine
        self.structs = source_structs()

    def int_of(self, ty, name):
        k = BITS[ty]
        if ty.startswith('u'): lo, hi = 0, (1 << k) - 1
        else: lo, hi = -(1 << (k - 1)), (1 << (k - 1)) - 1
        return I(T.var(name, lo, hi), ty)

    def value(self, ty, name, depth=0):
        ty = ty.strip()
        ty = re.sub(r"^&(?:'\w+ )?(?:mut )?", '', ty)
        base = re.sub(r'<.*>$', '', ty).split('::')[-1]
        if ty in INT_TYPES: return self.int_of(ty, name)
        if ty == 'bool': return B(T.bvar(name))
        if ty == '()': return Unit()
        if base in ('Pubkey', '__Pubkey'): return I(T.var(name, 0, (1 << 256) - 1), 'pubkey')
        m = re.match(r'^(?:std::boxed::)?Box<(.*)>$', ty)
        if m: return Boxed(self.value(m.group(1), name, depth))
        m = re.match(r'^\((.*)\)$', ty)
        if m and m.group(1):
            return S([self.value(x, f'{name}_{i}', depth + 1) for i, x in enumerate(M.split_top(m.group(1)))])
        m = re.match(r'^\[(.*); (\w+)\]$', ty)
        if m:
            n = m.group(2)
            n = int(n) if n.isdigit() else {'NUM_REWARDS': 3}.get(n.split('::')[-1])
            if n is not None and n <= 4 and depth < 3:
                return Arr([self.value(m.group(1), f'{name}_{i}', depth + 1) for i in range(n)])
            return Opaque('array:' + name)
        ix = getattr(self, 'ix_structs', {})
        if re.search(r'(^|::)instruction::\w+$', re.sub(r'<.*>$', '', ty)) and base in ix:     # Anchor-generated argument struct (may share its name with an accounts struct)
            return S({f: self.value(t, f'{name}_{f}', depth + 1) for f, t in ix[base]})
        if base in self.structs and depth < 4:
            return S({f: self.value(t, f'{name}_{f}', depth + 1) for f, t in self.structs[base]})
        en = source_enums().get(base)
        if en and len(en) == 1 and en[0][1] is not None and depth < 4:      # single struct-like variant: the value is that variant with havocked fields
            return E(en[0][0], [self.value(t, f'{name}_{f}', depth + 1) for f, t in en[0][1]])
        return Opaque(f'{base}:{name}')

    def result(self, ty, name, path):
        """generator of (path, value) for a havocked call result of type `ty` (forks on Result / Option)"""
        ty = ty.strip()
        m = re.match(r'^(?:std::result::)?Result<(.*)>$', ty)
        if m:
            parts = M.split_top(m.group(1))
            okb = T.bvar(name + '_ok')
            pe = self.e.fork(path, T.not_(okb))
            if pe: yield pe, E('Err', [E('Havoc_' + re.sub(r'\W', '_', name))])
            po = self.e.fork(path, okb)
            if po: yield po, E('Ok', [self.value(parts[0], name)])
            return
        m = re.match(r'^(?:std::option::)?Option<(.*)>$', ty)
        if m:
            sb = T.bvar(name + '_some')
            pn = self.e.fork(path, T.not_(sb))
            if pn: yield pn, E('None')
            ps = self.e.fork(path, sb)
            if ps: yield ps, E('Some', [self.value(m.group(1), name)])
            return
        yield path, self.value(ty, name)


def install(e, record=()):
    """handler-mode models; `record` = regexes of callees that are havocked by return type and logged even if they have a MIR body"""
    e.lenient = True
    hv = Havoc(e)
    e.havoc = hv
    e.record_rx = [re.compile(r) for r in record]
    S_ = e.summaries
    counter = [0]

    def nm(prefix):
        counter[0] += 1
        return f'{prefix}{counter[0]}'

    def acct_of(v):
        v = e.deref(v)
        while isinstance(v, Boxed): v = v.val
        return v

    def deref_acct(e_, callee, args, path):
        a = acct_of(args[0])
        if isinstance(a, Acct):
            yield path, FRef(a)
        else:
            yield path, Opaque('deref')
    S_.append((re.compile(r'<anchor_lang::prelude::(Account|InterfaceAccount)<.*> as Deref(Mut)?>::deref(_mut)?$'), deref_acct))

    def deref_identity(e_, callee, args, path):
        yield path, args[0]      # newtype wrappers around the spl account structs: same data
    S_.append((re.compile(r'<anchor_spl::(token|token_interface|token_2022)::\w+ as Deref>::deref$|<TokenAccount as Deref>::deref$|<TokenAccountInterface as Deref>::deref$'), deref_identity))

    def key_of(e_, callee, args, path):
        a = acct_of(args[0])
        yield path, (a.key if isinstance(a, Acct) else I(T.var(nm('key'), 0, (1 << 256) - 1), 'pubkey'))
    S_.append((re.compile(r' as anchor_lang::Key>::key$'), key_of))

    def to_ai(e_, callee, args, path):
        a = acct_of(args[0])
        yield path, (a if isinstance(a, Acct) else Opaque('account_info'))
    S_.append((re.compile(r'ToAccountInfo<.*>>::to_account_info$|AsRef<.*AccountInfo.*>>::as_ref$'), to_ai))

    def pk_eq(e_, callee, args, path):
        a, b = e_.deref(args[0]), e_.deref(args[1])
        def as_key(x):
            # a named Pubkey constant (e.g. `token::ID`): one fixed value per name (distinct names: distinct values above every havocked-key range is not needed, only determinism)
            if isinstance(x, (E, Opaque)):
                import hashlib
                nm = x.var if isinstance(x, E) else str(x.data or x.tag)
                return C((1 << 255) + int(hashlib.sha1(nm.encode()).hexdigest(), 16))
            return x.t
        r = T.cmp('=', as_key(a), as_key(b))
        yield path, B(r if callee.endswith('::eq') else T.not_(r))
    S_.append((re.compile(r'<__Pubkey as PartialEq>::(eq|ne)$|<anchor_lang::prelude::Pubkey as PartialEq>::(eq|ne)$'), pk_eq))

    def new_uninit(e_, callee, args, path):
        yield path, Boxed(Opaque('uninit'))
    S_.append((re.compile(r'Box::<.*>::new_uninit$'), new_uninit))

    def into_vec(e_, callee, args, path):
        b = args[0]
        yield path, (b.val if isinstance(b, Boxed) else b)
    S_.append((re.compile(r'box_assume_init_into_vec_unsafe'), into_vec))

    def unit(e_, callee, args, path):
        yield path.with_trace(('call', callee, list(args))), Unit()
    S_.append((re.compile(r'sol_log_data$|sol_log$|::msg$'), unit))


def call_fallback(e, fr, dest, callee, args, path):
    """havoc an unmodelled call by the declared type of its destination local and record it"""
    base = re.match(r'^\(?\*?\(?(_\d+)', dest.strip())
    ty = fr.fn.locals.get(base.group(1), '') if base else ''
    if dest.strip() != (base.group(1) if base else ''):
        ty = ''     # projection destination: type unknown -> opaque
    short = re.sub(r'<[^<>]*>', '', re.sub(r'<[^<>]*>', '', callee)).split('::')[-1]
    name = re.sub(r'\W', '_', short)[:24] + f'_{len(path.trace)}'
    p0 = path.with_trace(('call', callee, [snapshot(e, a) for a in args]))
    if not ty:
        yield p0, Opaque('ret:' + name); return
    for p, v in e.havoc.result(ty, name, p0):
        yield p.with_trace(('ret', callee, v)), v


def snapshot(e, v, depth=0):
    """value of an argument at call time (references are read through, so later mutation does not change the record)"""
    if depth > 6: return v
    if isinstance(v, Ref):
        try: return snapshot(e, e.read_place(v.frame, v.place), depth + 1)
        except Exception: return Opaque('ref')
    if isinstance(v, FRef): return snapshot(e, v.acct_ref.data, depth + 1) if v.acct_ref.data is not None else Opaque('acct-data')
    if isinstance(v, Boxed): return snapshot(e, v.val, depth + 1)
    return v
