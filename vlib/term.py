"""Integer/Boolean term layer for Engine M: tuple ASTs with constant folding and interval analysis.

All integer terms denote *mathematical* integers; machine semantics is made explicit by `wrap`
(mod 2^k, two's complement for signed).  Interval analysis removes `mod` wrappers that are
provably redundant, which is what makes the NIA queries tractable (DESIGN §1, §3.2).
"""
import itertools

RANGES = {}      # variable name -> (lo, hi)
DECLS = []       # ordered variable names (Int) ; bools in BDECLS
BDECLS = []
_rng_cache = {}
_counter = itertools.count(1)


def reset():
    RANGES.clear(); DECLS.clear(); BDECLS.clear(); _rng_cache.clear()
    global _counter
    _counter = itertools.count(1)


def C(n): return ('c', int(n))
TRUE, FALSE = ('true',), ('false',)


def var(name, lo, hi):
    if name in RANGES:
        name = f'{name}_{next(_counter)}'
    RANGES[name] = (lo, hi); DECLS.append(name)
    return ('v', name)


def fresh(prefix, lo, hi):
    return var(f'{prefix}{next(_counter)}', lo, hi)


def bvar(name):
    if name in BDECLS:
        name = f'{name}_{next(_counter)}'
    BDECLS.append(name)
    return ('bv', name)


def is_c(t): return t[0] == 'c'


def rng(t):
    k = t[0]
    if k == 'c': return (t[1], t[1])
    if k == 'v': return RANGES[t[1]]
    key = id(t)
    r = _rng_cache.get(key)
    if r is not None and r[0] is t:
        return r[1]
    r = _rng(t)
    _rng_cache[key] = (t, r)
    return r


def _rng(t):
    k = t[0]
    if k == '+':
        lo = hi = 0
        for x in t[1:]:
            a, b = rng(x)
            lo = None if (lo is None or a is None) else lo + a
            hi = None if (hi is None or b is None) else hi + b
        return (lo, hi)
    if k == '-':
        (a, b), (c, d) = rng(t[1]), rng(t[2])
        return (None if a is None or d is None else a - d, None if b is None or c is None else b - c)
    if k == '*':
        (a, b), (c, d) = rng(t[1]), rng(t[2])
        if None in (a, b, c, d):
            if a is not None and c is not None and a >= 0 and c >= 0:
                return (a * c, None)
            return (None, None)
        ps = [a * c, a * d, b * c, b * d]
        return (min(ps), max(ps))
    if k == 'div':
        (a, b), (c, d) = rng(t[1]), rng(t[2])
        if c is not None and c > 0 and a is not None and a >= 0:
            return (0 if d is None else a // d, None if b is None else b // c)
        return (None, None)
    if k == 'mod':
        (a, b), (c, d) = rng(t[1]), rng(t[2])
        if c is not None and c > 0 and d is not None:
            if a is not None and b is not None and a >= 0 and b < c:
                return (a, b)
            return (0, d - 1)
        return (None, None)
    if k == 'ite':
        (a, b), (c, d) = rng(t[2]), rng(t[3])
        return (None if a is None or c is None else min(a, c), None if b is None or d is None else max(b, d))
    raise ValueError('rng of ' + str(k))


# ---------------------------------------------------------------- constructors with simplification
def add(*xs):
    flat, c = [], 0
    for x in xs:
        if x[0] == '+': ys = x[1:]
        else: ys = (x,)
        for y in ys:
            if y[0] == 'c': c += y[1]
            else: flat.append(y)
    if c or not flat: flat.append(C(c))
    if len(flat) == 1: return flat[0]
    return ('+',) + tuple(flat)


def bit_of(t, k):
    """Boolean term for bit k of a *bit-sum* term: a sum of constants and ite(c, 2^m, 0) summands with pairwise distinct
    bit positions (the way a symbolic bit vector is written as an integer); None if `t` is not of that shape"""
    parts = t[1:] if t[0] == '+' else (t,)
    used, found = 0, None
    for x in parts:
        if x[0] == 'c':
            if x[1] < 0 or (x[1] & used): return None
            used |= x[1]
            if (x[1] >> k) & 1: found = TRUE
        elif x[0] == 'ite' and is_c(x[2]) and is_c(x[3]) and x[3][1] == 0 and x[2][1] > 0 and (x[2][1] & (x[2][1] - 1)) == 0:
            if x[2][1] & used: return None
            used |= x[2][1]
            if x[2][1] == (1 << k): found = x[1]
        else:
            return None
    return found if found is not None else FALSE


def sub(a, b):
    if is_c(a) and is_c(b): return C(a[1] - b[1])
    if is_c(a) and a[1] == 0 and b[0] == '-' and is_c(b[1]) and b[1][1] == 0: return b[2]
    if is_c(b) and b[1] == 0: return a
    if is_c(b): return add(a, C(-b[1]))
    if a == b: return C(0)
    return ('-', a, b)


def mul(a, b):
    if is_c(a) and is_c(b): return C(a[1] * b[1])
    for x, y in ((a, b), (b, a)):
        if is_c(x):
            if x[1] == 0: return C(0)
            if x[1] == 1: return y
    if is_c(b): a, b = b, a     # constants first
    return ('*', a, b)


def div(a, b):
    """floor division, b > 0 on every use (checked by callers / side conditions)"""
    if is_c(a) and is_c(b) and b[1] > 0: return C(a[1] // b[1])
    if is_c(b) and b[1] == 1: return a
    lo, hi = rng(a)
    blo, bhi = rng(b)
    if lo is not None and hi is not None and blo is not None and lo >= 0 and hi < blo: return C(0)
    # (x * k) div k
    if a[0] == '*' and is_c(b) and is_c(a[1]) and a[1][1] % b[1] == 0 and b[1] > 0:
        return mul(C(a[1][1] // b[1]), a[2])
    return ('div', a, b)


def mod(a, b):
    if is_c(a) and is_c(b) and b[1] > 0: return C(a[1] % b[1])
    lo, hi = rng(a)
    blo, _ = rng(b)
    if lo is not None and hi is not None and blo is not None and lo >= 0 and hi < blo: return a
    if a[0] == '*' and is_c(b) and is_c(a[1]) and b[1] > 0 and a[1][1] % b[1] == 0: return C(0)
    if a[0] == 'mod' and is_c(b) and is_c(a[2]) and a[2][1] % b[1] == 0: return mod(a[1], b)
    return ('mod', a, b)


def ite(c, a, b):
    if c == TRUE: return a
    if c == FALSE: return b
    if a == b: return a
    return ('ite', c, a, b)


def wrap(t, bits, signed=False):
    m = 1 << bits
    if not signed:
        return mod(t, C(m))
    lo, hi = rng(t)
    h = m >> 1
    if lo is not None and hi is not None and lo >= -h and hi < h: return t
    return sub(mod(add(t, C(h)), C(m)), C(h))


# ---------------------------------------------------------------- booleans
def cmp(op, a, b):
    (al, ah), (bl, bh) = rng(a), rng(b)
    def known(x): return x is not None
    if op == '<=':
        if known(ah) and known(bl) and ah <= bl: return TRUE
        if known(al) and known(bh) and al > bh: return FALSE
    elif op == '<':
        if known(ah) and known(bl) and ah < bl: return TRUE
        if known(al) and known(bh) and al >= bh: return FALSE
    elif op == '>=':
        return cmp('<=', b, a)
    elif op == '>':
        return cmp('<', b, a)
    elif op == '=':
        if a == b: return TRUE
        for x, y in ((a, b), (b, a)):
            if x[0] == 'ite' and is_c(x[2]) and is_c(x[3]) and is_c(y):
                e2, e3 = x[2][1] == y[1], x[3][1] == y[1]
                if e2 and e3: return TRUE
                if e2: return x[1]
                if e3: return not_(x[1])
                return FALSE
        if known(ah) and known(bl) and ah < bl: return FALSE
        if known(al) and known(bh) and al > bh: return FALSE
        if is_c(a) and is_c(b): return TRUE if a[1] == b[1] else FALSE
    elif op == 'distinct':
        return not_(cmp('=', a, b))
    return (op, a, b)


def not_(x):
    if x == TRUE: return FALSE
    if x == FALSE: return TRUE
    if x[0] == 'not': return x[1]
    return ('not', x)


def and_(*xs):
    out = []
    for x in xs:
        if x == FALSE: return FALSE
        if x == TRUE: continue
        if x[0] == 'and': out.extend(x[1:])
        else: out.append(x)
    if not out: return TRUE
    if len(out) == 1: return out[0]
    return ('and',) + tuple(out)


def or_(*xs):
    out = []
    for x in xs:
        if x == TRUE: return TRUE
        if x == FALSE: continue
        out.append(x)
    if not out: return FALSE
    if len(out) == 1: return out[0]
    return ('or',) + tuple(out)


def implies(a, b): return or_(not_(a), b)


def beq(a, b):
    if a == b: return TRUE
    if a == TRUE: return b
    if b == TRUE: return a
    if a == FALSE: return not_(b)
    if b == FALSE: return not_(a)
    return ('=', a, b)


# ---------------------------------------------------------------- printing
def smt(t):
    out = []
    _smt(t, out)
    return ''.join(out)


def _smt(t, out):
    k = t[0]
    if k == 'c':
        n = t[1]
        out.append(str(n) if n >= 0 else f'(- {-n})')
    elif k in ('v', 'bv'):
        out.append(t[1])
    elif k in ('true', 'false'):
        out.append(k)
    else:
        out.append('(' + k)
        for x in t[1:]:
            out.append(' ')
            _smt(x, out)
        out.append(')')


def abstract_div(terms):
    """replace every div/mod by a positive constant with a fresh quotient variable q and the exact linear definition
    c*q <= x < c*q + c (returns new terms, list of new declarations, list of defining constraints)"""
    memo, decl, cons = {}, [], []
    def go(t):
        if t[0] in ('c', 'v', 'bv', 'true', 'false'): return t
        k = id(t)
        r = memo.get(k)
        if r is not None and r[0] is t: return r[1]
        args = tuple(go(x) if isinstance(x, tuple) else x for x in t[1:])
        if t[0] in ('div', 'mod') and is_c(args[1]) and args[1][1] > 0:
            key = ('q', smt(args[0]) if len(decl) < 0 else id(t[1]), args[1][1])
            q = memo.get(key)
            if q is None:
                q = ('v', f'_q{len(decl)}'); decl.append(q[1])
                c = args[1]
                cons.append(('and', ('<=', ('*', c, q), args[0]), ('<', args[0], ('+', ('*', c, q), c))))
                memo[key] = q
            n = q if t[0] == 'div' else ('-', args[0], ('*', args[1], q))
        else:
            n = (t[0],) + args
        memo[k] = (t, n)
        return n
    return [go(t) for t in terms], decl, cons


def smt_dag(terms):
    """print a list of terms sharing structure: returns (definition lines, [printed term]) where every compound subterm that occurs
    more than once (by identity or equality) is bound once with define-fun — nested ite/div chains are DAGs, not trees"""
    count, order, canon = {}, [], {}
    def visit(t):
        if t[0] in ('c', 'v', 'bv', 'true', 'false'): return
        k = id(t)
        if k in count:
            count[k] += 1; return
        count[k] = 1
        for x in t[1:]:
            if isinstance(x, tuple): visit(x)
        order.append(t)
    for t in terms: visit(t)
    names, defs = {}, []
    BOOL = ('<=', '<', '>=', '>', '=', 'distinct', 'not', 'and', 'or')
    def pr(t, out):
        k = t[0]
        if k == 'c':
            n = t[1]; out.append(str(n) if n >= 0 else f'(- {-n})'); return
        if k in ('v', 'bv'): out.append(t[1]); return
        if k in ('true', 'false'): out.append(k); return
        nm = names.get(id(t))
        if nm is not None: out.append(nm); return
        out.append('(' + k)
        for x in t[1:]:
            out.append(' '); pr(x, out)
        out.append(')')
    def sort_of(t):
        k = t[0]
        if k in BOOL or k in ('true', 'false', 'bv'): return 'Bool'
        if k == 'ite': return sort_of(t[2])
        return 'Int'
    for t in order:
        if count[id(t)] > 1:
            out = []; pr(t, out)
            nm = f'_d{len(defs)}'
            defs.append(f'(define-fun {nm} () {sort_of(t)} {"".join(out)})')
            names[id(t)] = nm
    res = []
    for t in terms:
        out = []; pr(t, out); res.append(''.join(out))
    return defs, res


def decls(extra_bounds=True):
    ls = []
    for n in DECLS:
        ls.append(f'(declare-const {n} Int)')
    for n in BDECLS:
        ls.append(f'(declare-const {n} Bool)')
    if extra_bounds:
        for n in DECLS:
            lo, hi = RANGES[n]
            if lo is not None: ls.append(f'(assert (>= {n} {smt(C(lo))}))')
            if hi is not None: ls.append(f'(assert (<= {n} {smt(C(hi))}))')
    return '\n'.join(ls)


def evaluate(t, env):
    """concrete evaluation with Python big integers (translator validation, §3.5)"""
    k = t[0]
    if k == 'c': return t[1]
    if k in ('v', 'bv'): return env[t[1]]
    if k == 'true': return True
    if k == 'false': return False
    a = [evaluate(x, env) for x in t[1:]]
    if k == '+': return sum(a)
    if k == '-': return a[0] - a[1]
    if k == '*': return a[0] * a[1]
    if k == 'div': return a[0] // a[1]
    if k == 'mod': return a[0] % a[1]
    if k == 'ite': return a[1] if a[0] else a[2]
    if k == '<=': return a[0] <= a[1]
    if k == '<': return a[0] < a[1]
    if k == '>=': return a[0] >= a[1]
    if k == '>': return a[0] > a[1]
    if k == '=': return a[0] == a[1]
    if k == 'distinct': return a[0] != a[1]
    if k == 'not': return not a[0]
    if k == 'and': return all(a)
    if k == 'or': return any(a)
    raise ValueError(k)
